"""C19 -- every valid grid specification yields all geometry or a deliberate ValueError.

Shape B: the full box n_b x n_o x radial x mode, every getter; outcome = correct shape or ValueError
(Cartesian mode with fewer than three directions may raise the geometry library's QhullError).
"""
from __future__ import annotations

import itertools

import numpy as np
from scipy.spatial import QhullError

from mc.core import Report, viol, collect_samples

from molgri.space.fullgrid import FullGrid

PROPERTY = "C19"
GETTERS = ["array", "volumes", "adjacency", "borders", "distances"]


def run_case(case):
    b, o, t, cart = case["b"], case["o"], case["t"], case["cartesian"]
    pre = f"C19|b={b}|o={o}|t={t}|cartesian={cart}"
    vs = []
    outcomes = {}
    n_o_num = int(o.split("_")[-1]) if "_" in o else int(o)
    try:
        fg = FullGrid(b, o, t, position_grid_cartesian=cart)
        n = len(fg)
    except ValueError:
        return {"violations": [], "outcomes": {"construct": "ValueError"}, "n": None}
    except QhullError as e:
        if cart and n_o_num < 3:
            return {"violations": [], "outcomes": {"construct": "QhullError(allowed)"}, "n": None}
        return {"violations": [viol(pre + "|construct|QhullError", "construction failed with QhullError outside the "
                                    "allowed case", case, observed=str(e)[:80])], "outcomes": {}, "n": None}
    except Exception as e:
        return {"violations": [viol(pre + f"|construct|{type(e).__name__}", f"construction raised {type(e).__name__}: "
                                    f"{str(e)[:100]}", case, observed=type(e).__name__)], "outcomes": {}, "n": None}
    calls = {"array": lambda: fg.get_full_grid_as_array(), "volumes": lambda: fg.get_total_volumes(),
             "adjacency": lambda: fg.get_full_adjacency(), "borders": lambda: fg.get_full_borders(),
             "distances": lambda: fg.get_full_distances()}
    want_n = case["n_expected"]
    if n != want_n:
        vs.append(viol(pre + "|len", "len(grid) != n_t*n_o*n_b", case, expected=want_n, observed=n))
    order = list(GETTERS) + list(GETTERS[::-1])     # every getter twice, second pass in reverse order, same object
    if case.get("fresh_reverse"):
        order = list(GETTERS[::-1]) + list(GETTERS)
    seen_outcome = {}
    for g in order:
        try:
            r = calls[g]()
            if g == "array":
                shape, want = tuple(np.asarray(r).shape), (want_n, 7)
            elif g == "volumes":
                shape, want = tuple(np.asarray(r).shape), (want_n,)
            else:
                shape, want = tuple(r.shape), (want_n, want_n)
            outcomes[g] = "ok"
            if shape != want:
                vs.append(viol(pre + f"|{g}|shape", f"{g} has wrong shape", case, expected=list(want),
                               observed=list(shape)))
        except ValueError:
            outcomes[g] = "ValueError"
        except QhullError as e:
            outcomes[g] = "QhullError"
            if not (cart and n_o_num < 3):
                vs.append(viol(pre + f"|{g}|QhullError", f"{g} failed with QhullError outside the allowed case", case))
        except Exception as e:
            outcomes[g] = type(e).__name__
            vs.append(viol(pre + f"|{g}|{type(e).__name__}", f"{g} failed with internal {type(e).__name__}: {str(e)[:100]}",
                           case, expected="array of correct shape or ValueError", observed=type(e).__name__))
    return {"violations": vs, "outcomes": outcomes, "n": n}


def cases_with_orders(cs):
    out = []
    for c in cs:
        out.append(c)
        out.append(dict(c, fresh_reverse=True))
    return out


def cases(tier):
    radials = [("0.3", 1), ("[0.2,0.3]", 2), ("[0.1,0.2,0.4]", 3)]
    out = []
    for nb, no in itertools.product(range(1, 6), range(1, 6)):
        for t, nt in radials:
            for cart in (False, True):
                out.append({"b": str(nb), "o": str(no), "t": t, "cartesian": cart, "n_expected": nb * no * nt})
    # the one algorithm that refuses most sizes: admissible and non-admissible fulldiv names
    for bname, nb in (("fulldiv_8", 8), ("fulldiv_5", 5), ("fulldiv_12", 12), ("fulldiv_3", 3)):
        for no, (t, nt), cart in ((3, radials[1], False), (1, radials[0], False), (4, radials[1], True)):
            out.append({"b": bname, "o": str(no), "t": t, "cartesian": cart, "n_expected": nb * no * nt})
    if tier == "thorough":
        for nb, no in itertools.product(range(1, 9), range(1, 9)):
            if nb <= 5 and no <= 5:
                continue
            for t, nt in radials:
                for cart in (False, True):
                    out.append({"b": str(nb), "o": str(no), "t": t, "cartesian": cart, "n_expected": nb * no * nt})
        for balg in ("cube4D", "randomQ"):
            for oalg in ("ico", "cube3D", "randomS"):
                for nb, no in itertools.product((2, 3, 4, 5, 6), (2, 3, 4, 5, 6)):
                    for t, nt in radials[:2]:
                        for cart in (False, True):
                            out.append({"b": f"{balg}_{nb}", "o": f"{oalg}_{no}", "t": t, "cartesian": cart,
                                        "n_expected": nb * no * nt})
    else:
        for balg, oalg in (("randomQ", "randomS"), ("randomQ", "cube3D"), ("cube4D", "randomS")):
            for nb, no in ((2, 3), (3, 2), (4, 4), (5, 3), (3, 5)):
                for t, nt in radials[:2]:
                    for cart in (False, True):
                        out.append({"b": f"{balg}_{nb}", "o": f"{oalg}_{no}", "t": t, "cartesian": cart,
                                    "n_expected": nb * no * nt})
    return out


def run(ctx):
    rep = Report(PROPERTY, "exploration")
    cs = cases_with_orders(cases(ctx.tier))
    res = ctx.pmap(run_case, cs, chunksize=2)
    sig = set()
    for c, r in zip(cs, res):
        rep.add_violations(r["violations"])
        sig.add((c["b"], c["o"], c["t"], c["cartesian"]))
    oc = {}
    for r in res:
        for g, o in r["outcomes"].items():
            oc[f"{g}:{o}"] = oc.get(f"{g}:{o}", 0) + 1
    rep.coverage = {
        "evaluations": len(cs) * len(GETTERS) * 2,
        "distinct_nontrivial": len(sig),
        "rule": "full box n_b x n_o in 1..5 (thorough: 1..8, all algorithm names) x radial {1,2,3 radii} x "
                "{shell, Cartesian} mode; five getters per grid, each called twice on one object in forward-then-reverse order and (second object) reverse-then-forward order; distinct_nontrivial = distinct grid specifications",
        "samples": collect_samples(cs, 5), "outcome_histogram": oc, "exhaustive": True,
        "bound": {"n_b": "1..5", "n_o": "1..5", "n_t": "1..3"},
    }
    rep.assumptions = ["QhullError allowed only in Cartesian mode with fewer than three directions"]
    return rep


def replay(case):
    return run_case(case)["violations"]

"""O-S2: spherical Voronoi diagram of unit vectors in R^3 by clipping bisector great circles.

Independent of Qhull / scipy.spatial.  For an ordered pair (i, j) the bisector great circle is parametrised by an
angle theta: x(theta) = cos(theta) u + sin(theta) w with u the normalised midpoint and w = n x u (n the normalised
difference).  Every other site k keeps the half circle a_k cos(theta) + b_k sin(theta) >= 0.  The intersection of
half circles is a single arc; its length is the border, its end points are the Voronoi vertices of that edge.
"""
from __future__ import annotations

import numpy as np


def solid_angle(a, b, c):
    """Van Oosterom-Strackee; a, b, c: (..., 3) unit vectors; unsigned solid angle of the spherical triangle."""
    num = np.abs(np.einsum("...i,...i->...", a, np.cross(b, c)))
    den = 1.0 + np.einsum("...i,...i->...", a, b) + np.einsum("...i,...i->...", b, c) + np.einsum("...i,...i->...", c, a)
    return 2.0 * np.arctan2(num, den)


def sphere_voronoi(P: np.ndarray):
    """P: (N,3) unit vectors, N >= 3.  Returns dict(arc, dist, area, v1, v2) with (N,N) arrays (diagonal 0)."""
    P = np.asarray(P, dtype=float)
    N = len(P)
    arc = np.zeros((N, N))
    V1 = np.zeros((N, N, 3))
    V2 = np.zeros((N, N, 3))
    G = np.clip(P @ P.T, -1.0, 1.0)
    dist = np.arccos(G)
    np.fill_diagonal(dist, 0.0)
    for i in range(N):
        pi = P[i]
        js = np.array([j for j in range(N) if j != i])
        d = pi[None, :] - P[js]                      # (M,3) differences p_i - p_j
        nrm = np.linalg.norm(d, axis=1)
        ok = nrm > 1e-12
        n = d / np.where(ok, nrm, 1.0)[:, None]
        m = pi[None, :] + P[js]
        mn = np.linalg.norm(m, axis=1)
        # antipodal pair: no unique bisector midpoint; pick any unit vector orthogonal to n
        u = np.where((mn > 1e-9)[:, None], m / np.where(mn > 1e-9, mn, 1.0)[:, None], _any_orth(n))
        w = np.cross(n, u)
        # constraints from every k (including j itself and i: they give R ~ 0 and are masked)
        D = pi[None, :] - P                           # (N,3)  p_i - p_k
        a = u @ D.T                                   # (M,N)
        b = w @ D.T
        R = np.hypot(a, b)
        phi = np.arctan2(b, a)
        valid = R > 1e-9
        valid[:, i] = False
        valid[np.arange(len(js)), js] = False
        # reference = first valid constraint of each row
        first = np.argmax(valid, axis=1)
        has = valid[np.arange(len(js)), first]
        phi0 = phi[np.arange(len(js)), first]
        rel = np.mod(phi - phi0[:, None] + np.pi, 2 * np.pi) - np.pi      # in (-pi, pi]
        lo = np.where(valid, rel - np.pi / 2, -np.inf).max(axis=1)
        hi = np.where(valid, rel + np.pi / 2, np.inf).min(axis=1)
        length = np.where(has, np.maximum(hi - lo, 0.0), 2 * np.pi)
        length = np.where(ok, length, 0.0)
        arc[i, js] = length
        t1 = phi0 + lo
        t2 = phi0 + hi
        V1[i, js] = np.cos(t1)[:, None] * u + np.sin(t1)[:, None] * w
        V2[i, js] = np.cos(t2)[:, None] * u + np.sin(t2)[:, None] * w
    adj = arc > 1e-9
    area = np.zeros(N)
    for i in range(N):
        js = np.nonzero(adj[i])[0]
        if len(js):
            area[i] = solid_angle(np.broadcast_to(P[i], (len(js), 3)), V1[i, js], V2[i, js]).sum()
    return {"arc": arc, "dist": dist, "area": area, "v1": V1, "v2": V2, "adj": adj}


def _any_orth(n):
    e = np.zeros_like(n)
    idx = np.argmin(np.abs(n), axis=1)
    e[np.arange(len(n)), idx] = 1.0
    v = np.cross(n, e)
    return v / np.linalg.norm(v, axis=1)[:, None]

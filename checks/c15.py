"""C15 -- rotation-cell volumes approximate a partition of rotation space.

Shape B: cube4D and randomQ x every N from 1 to the bound, every cell.  The true measure of each cell is estimated by
the Monte-Carlo nearest-rotation count that the property itself prescribes (O-MC, private PCG64 stream); a cell is only
reported when it is outside the 30 % band by more than five standard errors of that estimate, so the statistical
ingredient can never raise a false alarm on a tree where the property holds.
"""
from __future__ import annotations

import numpy as np

from mc.core import Report, viol, collect_samples, Isolated, Sequence

from molgri.space.rotobj import SphereGrid4DFactory, SphereGrid3DFactory

PROPERTY = "C15"
N_MC = 400_000
_MC = {}


def mc_points(seed):
    if seed not in _MC:
        rng = np.random.Generator(np.random.PCG64(987654321 + seed))
        x = rng.standard_normal((N_MC, 4))
        _MC[seed] = x / np.linalg.norm(x, axis=1)[:, None]
    return _MC[seed]


def run_case(case):
    alg, N, dim = case["alg"], case["N"], case["dim"]
    pre = f"C15|{alg}_{N}"
    vs = []
    try:
        if dim == 3:
            g = SphereGrid3DFactory.create(alg, N)
        else:
            g = SphereGrid4DFactory.create(alg, N)
        vol = np.asarray(g.get_spherical_voronoi().get_voronoi_volumes(), dtype=float)
        vol_grid_level = np.asarray(g.get_voronoi_volumes(), dtype=float)
    except Exception as e:
        return {"violations": [viol(pre + "|raises", f"volume computation raised {type(e).__name__}: {str(e)[:120]}",
                                    case, observed=type(e).__name__)], "cells": 0}
    if vol_grid_level.shape != vol.shape or not np.array_equal(vol_grid_level, vol):
        vs.append(viol(pre + "|grid_level", "grid.get_voronoi_volumes() differs from the cell model's volumes", case))
    if vol.shape != (N,):
        return {"violations": [viol(pre + "|shape", "not N volumes", case, observed=list(vol.shape))], "cells": 0}
    if N < 4:
        want = (np.pi ** 2 if dim == 4 else 4 * np.pi) / N
        if not np.allclose(vol, want, rtol=1e-12):
            vs.append(viol(pre + "|equal_share", "tiny grids must return the equal-share estimate", case, expected=want,
                           observed=vol.tolist()))
        return {"violations": vs, "cells": N, "worst": 0.0, "sum_dev": 0.0}
    if dim == 3:
        return {"violations": vs, "cells": N, "worst": 0.0, "sum_dev": 0.0}
    G = np.asarray(g.get_grid_as_array(), dtype=float)
    if not np.all(vol > 0) or not np.all(np.isfinite(vol)):
        vs.append(viol(pre + "|positive", "volumes must be positive and finite", case, observed=vol.tolist()[:8]))
    try:
        full = np.asarray(g.get_spherical_voronoi().full_voronoi.get_voronoi_volumes(), dtype=float)
        if full.shape != (2 * N,) or not np.array_equal(full[:N], vol):
            vs.append(viol(pre + "|first_N_of_2N", "half-sphere volumes are not the first N double-cover volumes", case))
        if full.shape == (2 * N,) and not np.allclose(full[:N], full[N:], rtol=0.35):
            pass  # q and -q cells are congruent; their numerical estimates may differ (not part of the statement)
    except Exception as e:
        vs.append(viol(pre + "|double_cover_raises", f"{type(e).__name__}", case))
    sdev = abs(vol.sum() / np.pi ** 2 - 1)
    if sdev > 0.12:
        vs.append(viol(pre + "|sum", "volumes do not sum to pi^2 within 12 %", case, expected=np.pi ** 2,
                       observed=float(vol.sum())))
    X = mc_points(case["mc_seed"])
    nearest = np.argmax(np.abs(X @ G.T), axis=1)
    counts = np.bincount(nearest, minlength=N).astype(float)
    meas = counts / N_MC * np.pi ** 2
    sig = 1.0 / np.sqrt(np.maximum(counts, 1.0))
    dev = np.abs(vol / np.maximum(meas, 1e-300) - 1)
    bad = np.nonzero(dev > 0.30 + 5 * sig)[0]
    for i in bad[:5]:
        vs.append(viol(pre + f"|cell={int(i)}|measure", f"cell {int(i)}: reported volume deviates {dev[i]*100:.0f} % from "
                       "its measure (band 30 %)", case, expected=float(meas[i]), observed=float(vol[i])))
    return {"violations": vs, "cells": N, "worst": float(dev.max()), "sum_dev": float(sdev)}


def cases(tier, seed):
    out = []
    # 113 is the first randomQ size with a cell that receives no helper point; 420 exceeds 838 double-cover cells
    Ns = list(range(1, 41)) + [113] if tier == "quick" else list(range(1, 81)) + [100, 113, 150, 272, 420]
    for alg in ("cube4D", "randomQ"):
        for N in Ns:
            out.append({"alg": alg, "N": N, "dim": 4, "mc_seed": seed})
    for alg in ("ico", "cube3D", "randomS"):
        for N in (1, 2, 3):
            out.append({"alg": alg, "N": N, "dim": 3, "mc_seed": seed})
    return out


def _label(c):
    return f"{c['alg']}_{c['N']}"


def seq_cases(tier, seed):
    """Histories of several grids built in ONE fresh process: same N with the other algorithm (both orders), the same
    grid twice, a larger grid first, a direction grid of the same N first."""
    def c(alg, N, dim=4):
        return {"alg": alg, "N": N, "dim": dim, "mc_seed": seed}
    out = []
    for N in ((8, 20) if tier == "quick" else (5, 8, 13, 20, 33, 40)):
        out.append({"seq": [c("cube4D", N), c("randomQ", N)]})
        out.append({"seq": [c("randomQ", N), c("cube4D", N)]})
        out.append({"seq": [c("randomQ", N), c("randomQ", N), c("randomQ", N + 1), c("randomQ", N)]})
        out.append({"seq": [c("cube4D", 2 * N), c("cube4D", N), c("randomQ", 2 * N)]})
        out.append({"seq": [c("ico", 3, 3), c("cube4D", 3), c("randomQ", N)]})
    return out


def run(ctx):
    rep = Report(PROPERTY, "exploration")
    mc_points(ctx.seed)     # build once in the parent, inherited by forked workers
    cs = cases(ctx.tier, ctx.seed)
    res = ctx.pmap(Isolated(run_case), sorted(cs, key=lambda c: -c["N"]), chunksize=1, recheck=2)
    for r in res:
        rep.add_violations(r["violations"])
    scs = seq_cases(ctx.tier, ctx.seed)
    sres = ctx.pmap(Isolated(Sequence(run_case, _label)), scs, chunksize=1, recheck=1)
    for r in sres:
        rep.add_violations(r["violations"])
    rep.coverage = {
        "evaluations": sum(r["cells"] for r in res),
        "distinct_nontrivial": sum(1 for c in cs if c["N"] >= 4),
        "rule": "cube4D and randomQ x every N in the bound (plus direction grids N<4): every cell volume against the "
                f"Monte-Carlo measure ({N_MC} uniform points on S^3, nearest rotation by |x.q|); evaluations = cells; "
                "distinct_nontrivial = grids with N >= 4",
        "samples": collect_samples([f"{c['alg']}_{c['N']}" for c in cs], 6),
        "worst_cell_deviation": max(r.get("worst", 0) for r in res), "worst_sum_deviation": max(r.get("sum_dev", 0) for r in res),
        "histories_in_one_process": len(scs), "grids_in_histories": sum(r["members"] for r in sres),
        "exhaustive": True, "bound": {"N": "1..40, 113" if ctx.tier == "quick" else "1..80, 100, 113, 150, 272, 420"},
    }
    rep.assumptions = ["oracle is statistical by the property's own definition; a cell is flagged only beyond 30 % + 5 "
                       "standard errors", "VERIF_SEED selects the Monte-Carlo stream only"]
    return rep


def replay(case):
    if "seq" in case:
        return Sequence(run_case, _label)(case)["violations"]
    return run_case(case)["violations"]

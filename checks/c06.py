"""C06 -- Cartesian position mode reports the Euclidean Voronoi cell geometry.

Shape B: direction algorithms x every N in a range x radial grids; every cell volume, every adjacent pair's face area and
distance compared with a Qhull-free closed form: because all shells share the same directions, the Euclidean Voronoi
cell of (shell k, direction o) within the point set extended by one outer shell is exactly the polyhedral cone over the
spherical Voronoi cell of o cut by the planes x.o = (r_k + r_{k+-1})/2 (proof in DESIGN.md, O-E3).  Cone cross-sections
come from gnomonic projection of the O-S2 vertices.  A Qhull-based cross-check (convex-hull area of each Voronoi ridge)
is run in the thorough tier as a harness self-check of the oracle.
"""
from __future__ import annotations

from fractions import Fraction as F

import numpy as np

from mc.core import Isolated, Sequence, Report, viol, collect_samples
from mc.oracles.s2 import sphere_voronoi
from mc.histories import explore_getter_orders

from molgri.space.fullgrid import PositionGrid

PROPERTY = "C06"
RTOL = 1e-6

RADIALS = [("0.5", ["0.5"]), ("[0.2,0.3]", ["0.2", "0.3"]), ("[0.1, 0.3, 0.4]", ["0.1", "0.3", "0.4"])]
CLOSE_RADII = [("[0.2, 0.2001, 0.5]", ["0.2", "0.2001", "0.5"]), ("[0.01, 5]", ["0.01", "5"])]
DEFAULT_RADIAL = ("linspace(0.2, 0.4, 10)", [str(F(2, 10) + F(2, 90) * i) for i in range(10)])


def oracle(P, r):
    o = sphere_voronoi(P)
    n_o, T = len(P), len(r)
    inc_last = r[0] if T == 1 else r[-1] - r[-2]
    rext = np.concatenate([r, [r[-1] + inc_last]])
    upper = (rext[:-1] + rext[1:]) / 2            # b_k for k = 0..T-1
    lower = np.concatenate([[0.0], upper[:-1]])   # a_k
    # gnomonic cross-section of every direction cell
    A1 = np.zeros(n_o)
    open_cell = np.zeros(n_o, dtype=bool)
    G = {}
    for a in range(n_o):
        for b in np.nonzero(o["adj"][a])[0]:
            v1, v2 = o["v1"][a, b], o["v2"][a, b]
            c1, c2 = v1 @ P[a], v2 @ P[a]
            if c1 <= 1e-9 or c2 <= 1e-9:
                open_cell[a] = True
                continue
            g1, g2 = v1 / c1, v2 / c2
            G[(a, b)] = (g1, g2)
            A1[a] += np.linalg.norm(np.cross(g1 - P[a], g2 - P[a])) / 2
    n = n_o * T
    vol = np.zeros(n)
    B = np.zeros((n, n))
    D = np.zeros((n, n))
    A = np.zeros((n, n), dtype=bool)
    pts = np.concatenate([rk * P for rk in r])
    for k in range(T):
        for a in range(n_o):
            p = k * n_o + a
            vol[p] = np.inf if open_cell[a] else A1[a] * (upper[k] ** 3 - lower[k] ** 3) / 3
            if k + 1 < T:
                q = p + n_o
                A[p, q] = A[q, p] = True
                B[p, q] = B[q, p] = np.inf if open_cell[a] else A1[a] * upper[k] ** 2
            for b in np.nonzero(o["adj"][a])[0]:
                q = k * n_o + b
                A[p, q] = True
                if (a, b) in G:
                    g1, g2 = G[(a, b)]
                    B[p, q] = np.linalg.norm(np.cross(g1, g2)) * (upper[k] ** 2 - lower[k] ** 2) / 2
                else:
                    B[p, q] = np.inf
    for p, q in np.argwhere(A):
        D[p, q] = np.linalg.norm(pts[p] - pts[q])
    return vol, A, B, D, open_cell, pts


def qhull_faces(pts_ext, n):
    """secondary oracle: face area per ridge by 2-D convex hull in the bisector plane (faces are convex)."""
    from scipy.spatial import Voronoi, ConvexHull
    vor = Voronoi(pts_ext)
    out = {}
    for (p, q), rv in zip(vor.ridge_points, vor.ridge_vertices):
        if p >= n and q >= n:
            continue
        if -1 in rv or len(rv) < 3:
            out[(int(p), int(q))] = out[(int(q), int(p))] = np.inf if -1 in rv else 0.0
            continue
        V = vor.vertices[rv]
        nrm = pts_ext[q] - pts_ext[p]
        nrm = nrm / np.linalg.norm(nrm)
        e1 = np.cross(nrm, [1.0, 0, 0] if abs(nrm[0]) < 0.9 else [0, 1.0, 0])
        e1 /= np.linalg.norm(e1)
        e2 = np.cross(nrm, e1)
        xy = np.stack([V @ e1, V @ e2], axis=1)
        try:
            ar = ConvexHull(xy).volume
        except Exception:
            ar = 0.0
        out[(int(p), int(q))] = out[(int(q), int(p))] = ar
    return out


def run_case(case):
    alg, N, tname, tvals = case["alg"], case["N"], case["t"], case["radii_nm"]
    gname = f"{alg}_{N}"
    vs = []
    r = np.array([float(F(x) * 10) for x in tvals])
    try:
        pg = PositionGrid(gname, tname, position_grid_cartesian=True)
        P = np.asarray(pg.get_o_grid().get_grid_as_array(), dtype=float)
        vol = np.asarray(pg.get_all_position_volumes(), dtype=float)
        As = pg.get_adjacency_of_position_grid().tocoo()
        Bs = pg.get_borders_of_position_grid().tocoo()
        Ds = pg.get_distances_of_position_grid().tocoo()
    except Exception as e:
        return {"violations": [viol(f"C06|{gname}|t={tname}|raises", f"Cartesian position grid raised "
                                    f"{type(e).__name__}: {str(e)[:120]}", case, observed=type(e).__name__)],
                "pairs": 0, "open": False}
    xvol, XA, XB, XD, open_cell, pts = oracle(P, r)
    is_open = bool(open_cell.any())
    pre = f"C06|open_cell|o={gname}|t={tname}" if is_open else f"C06|{gname}|t={tname}"
    T = len(r)
    n = N * T
    A, B, D = As.toarray().astype(bool), Bs.toarray().astype(float), Ds.toarray().astype(float)
    if vol.shape != (n,) or A.shape != (n, n) or B.shape != (n, n) or D.shape != (n, n):
        return {"violations": [viol(pre + "|shape", "wrong shapes", case)], "pairs": 0, "open": is_open}
    if not np.all(vol > 0):
        i = int(np.argmin(vol))
        vs.append(viol(pre + "|volume_positive", f"{int(np.sum(~(vol > 0)))} cell volumes are not positive (first: cell "
                       f"{i})", case, expected=float(xvol[i]) if np.isfinite(xvol[i]) else "unbounded cell",
                       observed=float(vol[i])))
    # the listed finding F6 is exactly "unbounded cells are reported with volume 0.0": anything else reported for an
    # unbounded cell (garbage, a negative number, some finite estimate) is a different violation and gets its own key
    if is_open:
        ob = vol[~np.isfinite(xvol)]
        if np.any(ob != 0.0):
            vs.append(viol(f"C06|{gname}|t={tname}|unbounded_cell_not_zero", "an unbounded cell is reported with a volume other "
                           "than the documented 0.0", case, expected=0.0, observed=ob.tolist()[:6]))
    fin = np.isfinite(xvol)
    if fin.any():
        err = np.abs(vol - xvol)[fin] / xvol[fin]
        if err.max() > RTOL:
            i = int(np.nonzero(fin)[0][np.argmax(err)])
            vs.append(viol((f"C06|{gname}|t={tname}" if is_open else pre) + "|volume", f"volume of cell {i} differs from the Euclidean Voronoi cell volume", case,
                           expected=float(xvol[i]), observed=float(vol[i])))
    if not np.array_equal(A, XA):
        i, j = np.argwhere(A != XA)[0].tolist()
        vs.append(viol(pre + "|adjacency", f"adjacency of pair ({i},{j}) wrong", case, expected=bool(XA[i, j]),
                       observed=bool(A[i, j])))
    for name, M in (("border", B), ("distance", D)):
        if not np.array_equal(M, M.T):
            i, j = np.argwhere(M != M.T)[0].tolist()
            vs.append(viol(pre + f"|{name}_asymmetric", f"{name} matrix asymmetric at ({i},{j})", case,
                           observed=[float(M[i, j]), float(M[j, i])]))
        if not np.array_equal(M > 0, A):
            i, j = np.argwhere((M > 0) != A)[0].tolist()
            vs.append(viol(pre + f"|{name}_pattern", f"{name} not strictly positive exactly on the adjacency pattern, "
                           f"e.g. ({i},{j})", case, expected=float(XB[i, j] if name == 'border' else XD[i, j]),
                           observed=float(M[i, j])))
    if not (np.array_equal(As.row, Bs.row) and np.array_equal(As.col, Bs.col) and np.array_equal(As.row, Ds.row)
            and np.array_equal(As.col, Ds.col)):
        vs.append(viol(pre + "|entry_order", "stored entry order differs between adjacency, borders and distances", case))
    mask = XA & np.isfinite(XB)
    eb = np.where(mask, np.abs(B - np.where(mask, XB, 0)) / np.where(mask, XB, 1), 0)
    if eb.max() > RTOL:
        i, j = np.unravel_index(np.argmax(eb), eb.shape)
        kind = "radial" if i % N == j % N else "same_shell"
        nbad = int((eb > RTOL).sum())
        vs.append(viol(pre + f"|border|{kind}", f"{nbad} face areas differ from the planar Voronoi face, worst pair "
                       f"({i},{j}) [{kind}]", case, expected=float(XB[i, j]), observed=float(B[i, j])))
    ed = np.where(XA, np.abs(D - XD), 0)
    if ed.max() > 1e-9 * max(1.0, XD.max()):
        i, j = np.unravel_index(np.argmax(ed), ed.shape)
        vs.append(viol(pre + "|distance", f"distance of pair ({i},{j}) is not the Euclidean distance", case,
                       expected=float(XD[i, j]), observed=float(D[i, j])))
    # the same quantities reached through the FullGrid-level matrices (one rotation, factor 1): the saved files come from there
    if N <= 16 and not is_open and len(r) <= 3:
        try:
            from molgri.space.fullgrid import FullGrid
            fg = FullGrid("1", gname, tname, factor=1, position_grid_cartesian=True)
            FB, FD = fg.get_full_borders().toarray(), fg.get_full_distances().toarray()
            FV = np.asarray(fg.get_total_volumes(), dtype=float)
            if FB.shape != B.shape or not np.allclose(FB, B, rtol=1e-12, atol=0) or not np.allclose(FD, D, rtol=1e-12, atol=0):
                vs.append(viol(pre + "|fullgrid_level", "FullGrid-level borders/distances (n_b=1, f=1) are not the Cartesian "
                               "position-grid quantities", case))
            if FV.shape != vol.shape or not np.allclose(FV, vol * np.pi ** 2, rtol=1e-12):
                vs.append(viol(pre + "|fullgrid_volumes", "FullGrid volumes (n_b=1, f=1) are not position volume x pi^2", case))
        except Exception as e:
            vs.append(viol(pre + "|fullgrid_raises", f"{type(e).__name__}: {str(e)[:100]}", case))
    harness = None
    if case.get("qhull_crosscheck") and not is_open:
        inc_last = r[0] if T == 1 else r[-1] - r[-2]
        ext = np.concatenate([pts, (r[-1] + inc_last) * P])
        qf = qhull_faces(ext, n)
        worst = 0.0
        for (p, q), ar in qf.items():
            if p < n and q < n and XA[p, q]:
                worst = max(worst, abs(ar - XB[p, q]) / XB[p, q])
        if worst > 1e-6:
            harness = f"oracle self-check failed: closed-form and Qhull face areas differ by {worst:.2e} on {gname} {tname}"
    return {"violations": vs, "pairs": int(XA.sum()), "open": is_open, "harness": harness}


PG_GETTERS = {"volumes": lambda pg: pg.get_all_position_volumes(),
              "adjacency": lambda pg: pg.get_adjacency_of_position_grid(),
              "borders": lambda pg: pg.get_borders_of_position_grid(),
              "distances": lambda pg: pg.get_distances_of_position_grid()}


def order_case(case):
    o, t = case["o"], case["t"]
    bad, nwords, calls = explore_getter_orders(lambda: PositionGrid(o, t, position_grid_cartesian=True), PG_GETTERS, depth=3)
    vs = []
    for w, pos, g, exp, obs in bad[:3]:
        vs.append(viol(f"C06|getter_order|{o}|t={t}|word={'>'.join(w[:pos + 1])}", f"{g} after {w[:pos]} on the same "
                       "Cartesian PositionGrid differs from the first call on a fresh object", dict(case, word=w), exp, obs))
    return {"violations": vs, "pairs": 0, "open": False, "words": nwords, "calls": calls}


def cases(tier):
    out = []
    if tier == "quick":
        Ns = list(range(4, 46)) + list(range(48, 56)) + [80, 92, 98, 100, 162]
        NsD = [4, 5, 8, 12, 13, 20, 26, 42, 43]
    else:
        Ns = list(range(4, 101)) + [162]
        NsD = list(range(4, 46)) + [80, 98, 162]
    for alg in ("ico", "cube3D", "randomS"):
        for N in Ns:
            for tname, tv in RADIALS:
                out.append({"alg": alg, "N": N, "t": tname, "radii_nm": tv, "qhull_crosscheck": tname == "[0.2,0.3]"})
        for N in NsD:
            out.append({"alg": alg, "N": N, "t": DEFAULT_RADIAL[0], "radii_nm": DEFAULT_RADIAL[1]})
        for N in (8, 12, 33):
            for tname, tv in CLOSE_RADII:
                out.append({"alg": alg, "N": N, "t": tname, "radii_nm": tv})
    return out


def _label(c):
    return f"{c['alg']}_{c['N']} {c['t']}"


def seq_cases(tier):
    """Several Cartesian position grids built in ONE fresh process: radial grids that agree in length, first and last
    radius but differ inside; the same radial grid under another direction grid of the same N; the same grid twice."""
    def c(alg, N, tvals):
        return {"alg": alg, "N": N, "t": "[" + ", ".join(tvals) + "]", "radii_nm": list(tvals)}
    ra, rb, rc = ["0.1", "0.2", "0.3", "0.4"], ["0.1", "0.25", "0.3", "0.4"], ["0.1", "0.2", "0.3", "0.45"]
    out = []
    for alg, other in (("ico", "randomS"), ("cube3D", "ico"), ("randomS", "cube3D")):
        for N in ((20,) if tier == "quick" else (8, 12, 20, 42)):
            out.append({"seq": [c(alg, N, ra), c(alg, N, rb), c(alg, N, ra)]})
            out.append({"seq": [c(alg, N, ra), c(other, N, ra), c(alg, N, rc)]})
            out.append({"seq": [c(alg, N, rb), c(alg, N + 1, rb), c(alg, N, ["0.25"]), c(alg, N, rb)]})
    return out


def run(ctx):
    rep = Report(PROPERTY, "exploration")
    cs = cases(ctx.tier)
    res = ctx.pmap(Isolated(run_case), cs, chunksize=1, recheck=3)
    scs = seq_cases(ctx.tier)
    sres = ctx.pmap(Isolated(Sequence(run_case, _label)), scs, chunksize=1, recheck=1)
    for r in sres:
        rep.add_violations(r["violations"])
    ocs = [{"order": True, "o": o, "t": t} for o, t in (("ico_12", "[0.1, 0.3, 0.4]"), ("cube3D_8", "0.5"),
                                                        ("randomS_10", "[0.2,0.3]"))]
    ores = ctx.pmap(order_case, ocs, chunksize=1, recheck=1)
    for r in ores:
        rep.add_violations(r["violations"])
    for r in res:
        rep.add_violations(r["violations"])
        if r.get("harness"):
            rep.harness_errors.append(r["harness"])
    rep.coverage = {
        "evaluations": sum(r["pairs"] for r in res),
        "distinct_nontrivial": sum(1 for r in res if not r["open"]),
        "rule": "3 direction algorithms x every N in the bound x radial grids {1, 2, 3 radii, the shipped default of 10}; "
                "every cell volume and every adjacent ordered pair (face area, distance) against the cone/slab closed form; "
                "evaluations = adjacent ordered pairs compared; distinct_nontrivial = grids whose cells are all bounded",
        "samples": collect_samples([f"{c['alg']}_{c['N']} {c['t']}" for c in cs], 6),
        "grids_with_open_cells": sorted({f"{c['alg']}_{c['N']}" for c, r in zip(cs, res) if r["open"]}),
        "getter_order_words": sum(r["words"] for r in ores), "getter_order_calls": sum(r["calls"] for r in ores),
        "histories_in_one_process": len(scs), "grids_in_histories": sum(r["members"] for r in sres),
        "exhaustive": True,
        "bound": {"N": "4..45, 48..55, 80, 92, 98, 100, 162" if ctx.tier == "quick" else "4..100, 162"},
    }
    rep.assumptions = ["relative tolerance 1e-6 on volumes and face areas", "closed-form oracle cross-checked against "
                       "Qhull ridge hull areas for the [0.2,0.3] radial grid (oracle-vs-oracle, harness self-check)"]
    return rep


def replay(case):
    if case.get("order"):
        return order_case(case)["violations"]
    if "seq" in case:
        return Sequence(run_case, _label)(case)["violations"]
    return run_case(case)["violations"]

"""C03 -- direction-grid cells are the true Voronoi tessellation of the sphere.

Shape B: every N in a range for the three direction algorithms; every pair (i,j) compared with O-S2 (arc clipping).
"""
from __future__ import annotations

import numpy as np

from mc.core import Report, viol, collect_samples, Isolated, Sequence
from mc.histories import explore_getter_orders
from mc.oracles.s2 import sphere_voronoi

from molgri.space.rotobj import SphereGrid3DFactory

PROPERTY = "C03"
TOL = 1e-7
ALGS = ("ico", "cube3D", "randomS")


def run_case(case):
    alg, N = case["alg"], case["N"]
    pre = f"C03|{alg}_{N}"
    vs = []
    try:
        g = SphereGrid3DFactory.create(alg, N)
        P = np.asarray(g.get_grid_as_array(), dtype=float)
        adj_s = g.get_voronoi_adjacency().tocoo()
        bor_s = g.get_cell_borders().tocoo()
        dis_s = g.get_center_distances().tocoo()
        area = np.asarray(g.get_spherical_voronoi().get_voronoi_volumes(), dtype=float)
        area_grid_level = np.asarray(g.get_voronoi_volumes(), dtype=float)       # the same getter reached on the grid object
    except Exception as e:
        return {"violations": [viol(pre + "|raises", f"grid/geometry construction raised {type(e).__name__}: "
                                    f"{str(e)[:120]}", case, observed=type(e).__name__)], "pairs": 0, "adjacent": 0,
                "degenerate": 0}
    o = sphere_voronoi(P)
    A = adj_s.toarray().astype(bool)
    B = bor_s.toarray().astype(float)
    D = dis_s.toarray().astype(float)
    X = o["adj"]
    # pattern / symmetry / diagonal
    for name, M in (("adjacency", A), ("borders", B), ("distances", D)):
        if M.shape != (N, N):
            vs.append(viol(pre + f"|{name}|shape", "wrong shape", case, observed=list(M.shape)))
            return {"violations": vs, "pairs": 0, "adjacent": 0, "degenerate": 0}
        if not np.array_equal(M, M.T):
            ij = np.argwhere(M != M.T)[0].tolist()
            vs.append(viol(pre + f"|{name}|asymmetric", f"{name} matrix not symmetric, e.g. pair {ij}", case, observed=ij))
        if np.any(np.diag(M) != 0):
            vs.append(viol(pre + f"|{name}|diagonal", f"{name} matrix has a non-empty diagonal", case))
    if not (np.array_equal(A, B != 0) and np.array_equal(A, D != 0)):
        vs.append(viol(pre + "|pattern", "adjacency, borders and distances do not share one sparsity pattern", case))
    if not (np.array_equal(adj_s.row, bor_s.row) and np.array_equal(adj_s.col, bor_s.col)
            and np.array_equal(adj_s.row, dis_s.row) and np.array_equal(adj_s.col, dis_s.col)):
        vs.append(viol(pre + "|entry_order", "stored entry order differs between the three matrices", case))
    # per pair against the oracle
    bad = np.argwhere(A != X)
    if len(bad):
        i, j = bad[0].tolist()
        vs.append(viol(pre + "|adjacency", f"{len(bad)} pair entries differ from true Voronoi adjacency, first ({i},{j})",
                       case, expected=bool(X[i, j]), observed={"adjacent": bool(A[i, j]), "true_arc": float(o['arc'][i, j])}))
    both = A & X
    if both.any():
        eb = np.abs(B - o["arc"])[both]
        if eb.max() > TOL:
            i, j = np.argwhere(both & (np.abs(B - o["arc"]) > TOL))[0].tolist()
            vs.append(viol(pre + "|border", f"border of pair ({i},{j}) differs from the shared arc length", case,
                           expected=float(o["arc"][i, j]), observed=float(B[i, j])))
        ed = np.abs(D - o["dist"])[both]
        if ed.max() > TOL:
            i, j = np.argwhere(both & (np.abs(D - o["dist"]) > TOL))[0].tolist()
            vs.append(viol(pre + "|distance", f"distance of pair ({i},{j}) differs from the great-circle angle", case,
                           expected=float(o["dist"][i, j]), observed=float(D[i, j])))
    if area_grid_level.shape != area.shape or not np.array_equal(area_grid_level, area):
        vs.append(viol(pre + "|area_grid_level", "grid.get_voronoi_volumes() differs from the Voronoi object's areas", case,
                       expected=float(area.sum()), observed=float(np.sum(area_grid_level))))
    if area.shape != (N,) or np.any(~(area > 0)):
        vs.append(viol(pre + "|area_positive", "areas must be N positive numbers", case, observed=area.tolist()[:10]))
    else:
        if abs(area.sum() - 4 * np.pi) > 1e-9:
            vs.append(viol(pre + "|area_sum", "areas do not sum to 4 pi", case, expected=4 * np.pi,
                           observed=float(area.sum())))
        ea = np.abs(area - o["area"])
        if ea.max() > TOL:
            i = int(np.argmax(ea))
            vs.append(viol(pre + "|area", f"area of cell {i} differs from the region's area", case,
                           expected=float(o["area"][i]), observed=float(area[i])))
    # degenerate vertices: pairs whose true arc is ~0 although the cells touch in a point
    deg = int(np.sum((o["arc"] <= 1e-9) & (o["arc"] > 0)))
    return {"violations": vs, "pairs": N * (N - 1) // 2, "adjacent": int(X.sum() // 2), "degenerate": deg}


SG_GETTERS = {"volumes": lambda g: g.get_spherical_voronoi().get_voronoi_volumes(),
              "volumes_approx": lambda g: g.get_spherical_voronoi().get_voronoi_volumes(approx=True),
              "adjacency": lambda g: g.get_voronoi_adjacency(), "borders": lambda g: g.get_cell_borders(),
              "distances": lambda g: g.get_center_distances()}


def order_case(case):
    """all getter words of length <= 3 on ONE grid object: every observation equals the first call on a fresh object"""
    alg, N = case["alg"], case["N"]
    import itertools
    allw = [list(w) for d in (2, 3) for w in itertools.product(SG_GETTERS, repeat=d)]
    bad, nwords, calls = explore_getter_orders(lambda: SphereGrid3DFactory.create(alg, N), SG_GETTERS, words=allw[case.get("lo", 0):case.get("hi", len(allw))])
    vs = []
    for w, pos, g, exp, obs in bad[:3]:
        vs.append(viol(f"C03|getter_order|{alg}_{N}|word={'>'.join(w[:pos + 1])}", f"{g} after {w[:pos]} on the same grid "
                       "object differs from the first call on a fresh object", dict(case, word=w), exp, obs))
    return {"violations": vs, "pairs": 0, "adjacent": 0, "degenerate": 0, "two_face": 0, "words": nwords, "calls": calls}


def cases(tier):
    if tier == "quick":
        Ns = list(range(4, 131)) + [161, 162, 163, 257, 258]
    else:
        Ns = list(range(4, 331)) + [385, 386, 387, 641, 642, 643, 1000]
    return [{"alg": a, "N": n} for n in Ns for a in ALGS]


def _label(c):
    return f"{c['alg']}_{c['N']}"


def seq_cases(tier):
    """Several grids built in ONE fresh process: every ordered pair of algorithms at the same N, the same grid again after
    another one, a neighbouring N in between."""
    algs = ('ico', 'cube3D', 'randomS')
    out = []
    for N in ((15, 30) if tier == "quick" else (7, 12, 15, 30, 42, 60)):
        for a in algs:
            for b in algs:
                if a != b:
                    out.append({"seq": [{"alg": a, "N": N}, {"alg": b, "N": N}, {"alg": a, "N": N}]})
            out.append({"seq": [{"alg": a, "N": N}, {"alg": a, "N": N + 1}, {"alg": a, "N": N}, {"alg": a, "N": N - 1}]})
    return out


def run(ctx):
    rep = Report(PROPERTY, "exploration")
    cs = cases(ctx.tier)
    res = ctx.pmap(run_case, cs, chunksize=1, recheck=3)
    ocs = [{"order": True, "alg": a, "N": n, "lo": lo, "hi": lo + 15} for lo in range(0, 150, 15) for a, n in [('ico', 13), ('cube3D', 9), ('randomS', 11)]]
    ores = ctx.pmap(order_case, ocs, chunksize=1, recheck=1)
    for r in res + ores:
        rep.add_violations(r["violations"])
    scs = seq_cases(ctx.tier)
    sres = ctx.pmap(Isolated(Sequence(run_case, _label)), scs, chunksize=1, recheck=1)
    for r in sres:
        rep.add_violations(r["violations"])
    rep.coverage = {
        "evaluations": sum(r["pairs"] for r in res),
        "distinct_nontrivial": len(cs),
        "rule": "every N in the bound for ico, cube3D, randomS; every unordered pair of every grid compared with the "
                "arc-clipping oracle (adjacency, border, distance), every cell area; evaluations = pairs checked; "
                "distinct_nontrivial = distinct grids (all have >= 4 points)",
        "samples": collect_samples([f"{c['alg']}_{c['N']}" for c in cs], 6),
        "grids": len(cs), "adjacent_pairs": sum(r["adjacent"] for r in res),
        "getter_order_words": sum(r["words"] for r in ores), "getter_order_calls": sum(r["calls"] for r in ores),
        "histories_in_one_process": len(scs), "grids_in_histories": sum(r["members"] for r in sres),
        "exhaustive": True, "bound": {"N": "4..130 + 161-163, 257, 258" if ctx.tier == "quick" else "4..330 + 385-387, 641-643, 1000"},
    }
    rep.assumptions = ["tolerance 1e-7 on arcs, angles, areas", "adjacent <=> shared arc longer than 1e-9"]
    return rep


def replay(case):
    if case.get("order"):
        return order_case(case)["violations"]
    if "seq" in case:
        return Sequence(run_case, _label)(case)["violations"]
    return run_case(case)["violations"]

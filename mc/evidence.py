"""Write /verif/evidence/<id>.json and validate it against EVIDENCE.schema.json (jsonschema lives in python3-vt)."""
from __future__ import annotations

import json
import os
import shutil
import subprocess

from .core import jdump, HarnessError

VERIF = os.path.dirname(os.path.dirname(os.path.abspath(__file__)))
SCHEMA_CANDIDATES = ["/root/.vp/EVIDENCE.schema.json", os.path.join(VERIF, "schemas", "EVIDENCE.schema.json")]


def write_evidence(report, tier: str, seed: int, wall_s: float, n_unlisted: int, n_known: int) -> str:
    # VERIF_EVIDENCE_DIR: used by tools/try_patch.sh and tools/seed_eval.sh so that runs against a deliberately broken
    # scratch tree never overwrite the evidence of the unchanged tree
    edir = os.environ.get("VERIF_EVIDENCE_DIR") or os.path.join(VERIF, "evidence")
    os.makedirs(edir, exist_ok=True)
    path = os.path.join(edir, f"{report.property_id}.json")
    cov = dict(report.coverage)
    cov.setdefault("known_finding_violations", n_known)
    ev = {
        "property_id": report.property_id,
        "tier": tier,
        "seed": int(seed),
        "level": report.level,
        "coverage": cov,
        "assumptions": report.assumptions,
        "wall_s": round(float(wall_s), 2),
        "violations": int(n_unlisted),
    }
    tmp = path + ".tmp"
    with open(tmp, "w") as f:
        f.write(json.dumps(json.loads(jdump(ev)), indent=1))
    os.replace(tmp, path)
    validate(path)
    return path


def validate(path: str):
    schema = next((s for s in SCHEMA_CANDIDATES if os.path.exists(s)), None)
    py = shutil.which("python3-vt") or "/opt/veriftools/pyvenv/bin/python"
    if schema is None or not os.path.exists(py):
        _fallback_validate(path)
        return
    code = ("import json,sys,jsonschema;"
            "s=json.load(open(sys.argv[1]));d=json.load(open(sys.argv[2]));"
            "jsonschema.Draft202012Validator(s).validate(d)")
    r = subprocess.run([py, "-c", code, schema, path], capture_output=True, text=True, timeout=120)
    if r.returncode != 0:
        raise HarnessError(f"evidence file {path} does not validate: {r.stderr[-1500:]}")


def _fallback_validate(path: str):
    d = json.load(open(path))
    for k in ("property_id", "tier", "seed", "level", "coverage", "wall_s"):
        if k not in d:
            raise HarnessError(f"evidence {path} lacks {k}")
    c = d["coverage"]
    if d["level"] == "model_checking":
        assert c["states"] >= 1 and c["transitions"] >= 1 and len(c["samples"]) >= 1
    else:
        assert c["evaluations"] >= 1 and c["distinct_nontrivial"] >= 2 and len(c["samples"]) >= 1

#!/usr/bin/env python3
"""Creates my own quick mutants as patches under /verif/mutants (each: one textual replacement in /repo, diff, revert)."""
import subprocess, sys, os
R = "/repo"
M = [
 ("c02_if_el_gt1", "molgri/space/fullgrid.py", "                if el:\n                    for k in range(n_b):", "                if el > 1:\n                    for k in range(n_b):"),
 ("c02_volumes_rotation_major", "molgri/space/fullgrid.py", "        for o_rot in pos_volumes:\n            for b_rot in ori_volumes:", "        for b_rot in ori_volumes:\n            for o_rot in pos_volumes:"),
 ("c02_factor_on_both", "molgri/space/fullgrid.py", "            same_position_neighbours = bmat(my_blocks, dtype=float) #block_array", "            same_position_neighbours = bmat(my_blocks, dtype=float) * my_factor #block_array"),
 ("c03_threshold_dim", "molgri/space/voronoi.py", "            if len(set_1.intersection(set_2)) >= self.get_dim() - 1:", "            if len(set_1.intersection(set_2)) >= self.get_dim():"),
 ("c03_unique_tol", "molgri/constants.py", "UNIQUE_TOL = 5", "UNIQUE_TOL = 1"),
 ("c04_no_sign_fold", "molgri/space/utils.py", "    return np.where(theta > pi / 2, pi-theta, theta)", "    return theta"),
 ("c04_revert_F1", "molgri/space/voronoi.py", "                if len(opp_ind) > 0:", "                if opp_ind:"),
 ("c05_border_diag_shift", "molgri/space/fullgrid.py", "            for layer_i, radius in enumerate(between_radii[:-1]):", "            for layer_i, radius in enumerate(between_radii[1:]):"),
 ("c05_distance_between_radii", "molgri/space/fullgrid.py", "            multiply = self.get_radii()\n", "            multiply = between_radii\n"),
 ("c05_last_increment", "molgri/space/translations.py", "        increments.append(increments[-1])\n        increments = np.array(increments)\n        increments = increments / 2", "        increments.append(increments[0])\n        increments = np.array(increments)\n        increments = increments / 2"),
 ("c06_extra_shell_first_increment", "molgri/space/fullgrid.py", "            t_additional.append(self.t_grid.trans_grid[-1]+increments[-1])", "            t_additional.append(self.t_grid.trans_grid[-1]+increments[0])"),
 ("c06_fan_skip", "molgri/space/utils.py", "    for k in range(1, n - 1):\n        all_triangle_areas += 0.5", "    for k in range(1, n - 2 if n > 5 else n - 1):\n        all_triangle_areas += 0.5"),
 ("c07_second_half_not_negated", "molgri/space/rotobj.py", "            full_hypersphere_grid[N + i] = inverse_q", "            full_hypersphere_grid[N + i] = half_grid[i]"),
 ("c07_hemisphere_ge", "molgri/space/utils.py", "        if np.allclose(q[:i], 0) and q[i] > 0:\n            return True", "        if np.allclose(q[:i], 0) and q[i] >= 0:\n            return True"),
 ("c09_swap_tile_repeat", "molgri/space/fullgrid.py", "        repeated_natural_num = np.tile(np.arange(self.get_b_N()), self.get_t_N()*self.get_o_N())", "        repeated_natural_num = np.repeat(np.arange(self.get_b_N()), self.get_t_N()*self.get_o_N())"),
 ("c09_unique_sorted", "molgri/space/fullgrid.py", "    unique_quaternions = quaternion_array[np.sort(np.unique(np.round(quaternion_array, 8), return_index=True,\n                                                                     axis=0)[1])]", "    unique_quaternions = quaternion_array[np.unique(np.round(quaternion_array, 8), return_index=True,\n                                                                     axis=0)[1]]"),
 ("c10_transposed_rotation", "molgri/molecules/pts.py", "self.moving_molecule.atoms.rotate(rotation_body.as_matrix(), point=", "self.moving_molecule.atoms.rotate(rotation_body.as_matrix().T, point="),
 ("c10_rotate_about_origin", "molgri/molecules/pts.py", "point=self.moving_molecule.atoms.center_of_mass())", "point=(0, 0, 0))"),
 ("c10_no_reset", "molgri/molecules/pts.py", "            self.moving_molecule.atoms.positions = starting_positions\n", "            pass\n"),
 ("c11_outer_bound_no_half", "molgri/molecules/transitions.py", "outer_bound = self.t_array[-1] + 0.5 * (self.t_array[-1] - self.t_array[-2])", "outer_bound = self.t_array[-1] + (self.t_array[-1] - self.t_array[-2])"),
 ("c11_composition", "molgri/molecules/transitions.py", "        return np.array(t_assignments * len(self.o_array) + o_assignments, dtype=float)", "        return np.array(o_assignments * len(self.t_array) + t_assignments, dtype=float)"),
 ("c11_no_sign_fix", "molgri/molecules/transitions.py", "np.tile(self._determine_positive_directions(ag) / reference_direction, (3, 1))", "np.tile(np.ones(3), (3, 1))"),
 ("c13_revert_sorted", "molgri/molecules/rate_merger.py", "    to_keep = sorted(set(range(my_matrix.shape[1])) - set(reindexing_to_join))", "    to_keep = list(set(range(my_matrix.shape[1])) - set(reindexing_to_join))"),
 ("c13_collective_last", "molgri/molecules/rate_merger.py", "    collective_index = [to_join[0] for to_join in reindexing_to_join]\n", "    collective_index = [to_join[-1] for to_join in reindexing_to_join]\n"),
 ("c13_no_normalize_after_delete", "molgri/molecules/rate_merger.py", "    result = sqra_normalize(result)\n", "    pass\n"),
 ("c14_borders_save_distances", "molgri/io.py", "        sparse.save_npz(path_borders_array, self.fg.get_full_borders())", "        sparse.save_npz(path_borders_array, self.fg.get_full_distances())"),
 ("c14_eigs_no_transpose", "molgri/molecules/transitions.py", "eigs(self.matrix_to_decompose.T, k=k", "eigs(self.matrix_to_decompose, k=k"),
 ("c14_ascending", "molgri/molecules/transitions.py", "        idx = eigenval.argsort()[::-1]", "        idx = eigenval.argsort()"),
 ("c15_no_half", "molgri/space/voronoi.py", "        return np.array([detailed.area / 2.0 for detailed in all_hulls_detailed])", "        return np.array([detailed.area for detailed in all_hulls_detailed])"),
 ("c15_tiny_share", "molgri/space/voronoi.py", "            return np.array([2 * pi**2 /2 / self.N_points] * self.N_points)", "            return np.array([2 * pi**2 / self.N_points] * self.N_points)"),
 ("c16_no_sort", "molgri/space/translations.py", "            self.trans_grid = np.sort(self.trans_grid, axis=None)\n", "            self.trans_grid = np.ravel(self.trans_grid)\n"),
 ("c16_single_radius_between", "molgri/space/translations.py", "    else:\n        increments = np.array(increments)\n\n    between_radii", "    else:\n        increments = np.array(increments) / 2\n\n    between_radii"),
 ("c17_revert_F7", "molgri/naming.py", "            elif self.algo is None and self.N is not None and self.N > 1:\n                self.algo = DEFAULT_ALGORITHM_O", "            elif self.algo is None and self.N > 1:\n                self.algo = DEFAULT_ALGORITHM_O"),
 ("c17_defaults_swapped", "molgri/constants.py", 'DEFAULT_ALGORITHM_B = "cube4D"', 'DEFAULT_ALGORITHM_B = "randomQ"'),
 ("c18_no_face_diagonals", "molgri/space/polytopes.py", "        self._add_edges_of_len(self.side_len * 2 * np.sqrt(2), wished_levels=[self.current_level - 1,\n                                                                              self.current_level - 1],\n                               only_seconds=True)", "        pass"),
 ("c18_level_order", "molgri/space/polytopes.py", "            self.G.nodes[tuple(n)][\"central_index\"] = self.current_max_ci + i", "            self.G.nodes[tuple(n)][\"central_index\"] = self.current_max_ci + len(new_nodes) - 1 - i"),
 ("c19_revert_F5", "molgri/space/fullgrid.py", "            if len(increments) > 0:\n                increments.append(increments[-1])", "            increments.append(increments[-1])"),
 ("c19_threshold", "molgri/space/rotobj.py", "        elif self.dimensions == 4 and self.N >= 4:", "        elif self.dimensions == 4 and self.N > 4:"),
 ("c20_skiprows14", "molgri/io.py", "comment='@', skiprows=13, header=None", "comment='@', skiprows=14, header=None"),
 ("c20_legend_scan9", "molgri/io.py", "                for i in range(0, 10):", "                for i in range(0, 9):"),
 ("c20_csv_index", "molgri/io.py", "            table = pd.read_csv(self.path_energy, index_col=0)", "            table = pd.read_csv(self.path_energy)"),
]
os.makedirs("/verif/mutants", exist_ok=True)
for name, f, old, new in M:
    p = os.path.join(R, f)
    s = open(p).read()
    if s.count(old) != 1:
        print("SKIP (pattern count %d): %s" % (s.count(old), name)); continue
    open(p, "w").write(s.replace(old, new))
    d = subprocess.run(["git", "-C", R, "diff"], capture_output=True, text=True).stdout
    open(f"/verif/mutants/{name}.patch", "w").write(d)
    subprocess.run(["git", "-C", R, "checkout", "--", "."])
print("done")

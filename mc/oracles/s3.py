"""O-S3: Voronoi faces on the unit quaternion sphere S^3 for the point set {+-q_i}, by planar polygon clipping.

For sites a, b the bisector is a great 2-sphere; in an orthonormal basis E of (q_a - q_b)^perp it is S^2 in R^3.
Because -q_a is also a site, the face lies in the open hemisphere around m = E^T q_a and is projected gnomonically onto
the plane y.m^ = 1, where every other site k is the half plane (c_k.u) z1 + (c_k.v) z2 + c_k.m^ >= 0 with
c_k = E^T (q_a - q_k).  The face is a convex polygon obtained by Sutherland-Hodgman clipping of a huge square.
Independent of Qhull / scipy.spatial.
"""
from __future__ import annotations

import numpy as np

from .s2 import solid_angle

BIG = 1.0e7
EPS_IN = 1e-10


def _basis_perp(d):
    """orthonormal basis (4x3) of the hyperplane orthogonal to d (4-vector)."""
    d = d / np.linalg.norm(d)
    M = np.eye(4) - np.outer(d, d)
    # Gram-Schmidt on the three columns with largest norm
    idx = np.argsort(-np.linalg.norm(M, axis=0))
    B = []
    for i in idx:
        v = M[:, i].copy()
        for b in B:
            v -= (v @ b) * b
        nv = np.linalg.norm(v)
        if nv > 1e-8:
            B.append(v / nv)
        if len(B) == 3:
            break
    return np.stack(B, axis=1)


def _clip(poly, a, b, c):
    """keep a*z1 + b*z2 + c >= 0 ; poly: list of (z1,z2)."""
    n = len(poly)
    if n == 0:
        return poly
    vals = [a * p[0] + b * p[1] + c for p in poly]
    out = []
    for i in range(n):
        p, q = poly[i], poly[(i + 1) % n]
        vp, vq = vals[i], vals[(i + 1) % n]
        inp, inq = vp >= -EPS_IN, vq >= -EPS_IN
        if inp:
            out.append(p)
        if (vp > EPS_IN and vq < -EPS_IN) or (vp < -EPS_IN and vq > EPS_IN):
            t = vp / (vp - vq)
            out.append((p[0] + t * (q[0] - p[0]), p[1] + t * (q[1] - p[1])))
    # de-duplicate consecutive (near) identical vertices
    ded = []
    for p in out:
        if not ded or abs(p[0] - ded[-1][0]) + abs(p[1] - ded[-1][1]) > 1e-12 * (1 + abs(p[0]) + abs(p[1])):
            ded.append(p)
    if len(ded) > 1 and abs(ded[0][0] - ded[-1][0]) + abs(ded[0][1] - ded[-1][1]) <= 1e-12 * (1 + abs(ded[0][0]) + abs(ded[0][1])):
        ded.pop()
    return ded


def face(Q, a, b):
    """Voronoi face between sites a and b of the site array Q (M,4).  Returns (area, touches_big_square, n_vertices)."""
    qa, qb = Q[a], Q[b]
    d = qa - qb
    E = _basis_perp(d)
    m = E.T @ qa
    nm = np.linalg.norm(m)
    if nm < 1e-9:
        return 0.0, False, 0
    mh = m / nm
    # u, v orthonormal, orthogonal to mh
    t = np.zeros(3)
    t[np.argmin(np.abs(mh))] = 1.0
    u = np.cross(mh, t)
    u /= np.linalg.norm(u)
    v = np.cross(mh, u)
    C = (qa[None, :] - Q) @ E                 # (M,3) c_k
    mid = (qa + qb)
    mid = mid / np.linalg.norm(mid)
    order = np.argsort(-(Q @ mid))            # nearest to the midpoint first: early exit
    poly = [(-BIG, -BIG), (BIG, -BIG), (BIG, BIG), (-BIG, BIG)]
    for k in order:
        if k == a or k == b:
            continue
        ck = C[k]
        A_, B_, C_ = ck @ u, ck @ v, ck @ mh
        s = np.hypot(A_, B_)
        if s < 1e-12:
            if C_ < -1e-12:
                return 0.0, False, 0
            continue
        poly = _clip(poly, A_ / s, B_ / s, C_ / s)
        if len(poly) < 3:
            return 0.0, False, 0
    touches = any(max(abs(p[0]), abs(p[1])) > BIG * 0.5 for p in poly)
    Z = np.array(poly)
    Y = mh[None, :] + Z[:, :1] * u[None, :] + Z[:, 1:] * v[None, :]
    Y = Y / np.linalg.norm(Y, axis=1)[:, None]
    cen = Y.mean(axis=0)
    cen /= np.linalg.norm(cen)
    Yn = np.roll(Y, -1, axis=0)
    area = float(solid_angle(np.broadcast_to(cen, Y.shape), Y, Yn).sum())
    return area, touches, len(poly)


def rotation_voronoi(G, area_eps=1e-9):
    """G: (N,4) unit quaternions, one per rotation.  Sites are [G; -G]."""
    G = np.asarray(G, dtype=float)
    N = len(G)
    Q = np.concatenate([G, -G])
    nfaces = np.zeros((N, N), dtype=int)
    border = np.zeros((N, N))
    touches = 0
    diag = []
    pair_faces = 0
    for i in range(N):
        ar, tch, _ = face(Q, i, i + N)
        pair_faces += 1
        if ar > area_eps:
            diag.append(i)
        for j in range(i + 1, N):
            a1, t1, _ = face(Q, i, j)
            a2, t2, _ = face(Q, i, j + N)
            pair_faces += 2
            k = int(a1 > area_eps) + int(a2 > area_eps)
            nfaces[i, j] = nfaces[j, i] = k
            touches += int(t1 and a1 > area_eps) + int(t2 and a2 > area_eps)
            if k == 1:
                border[i, j] = border[j, i] = a1 if a1 > area_eps else a2
            elif k == 2:
                border[i, j] = border[j, i] = np.nan
    dots = np.clip(np.abs(G @ G.T), 0.0, 1.0)
    dist = np.arccos(dots)
    np.fill_diagonal(dist, 0.0)
    return {"adj": nfaces > 0, "nfaces": nfaces, "border": border, "dist": dist, "diag_faces": diag,
            "touches": touches, "faces_computed": pair_faces}

#!/usr/bin/env python3
"""Regenerates /verif/MANIFEST.json from the table below (keeps it schema-valid at all times)."""
import json, os, subprocess, sys
VERIF = os.path.dirname(os.path.dirname(os.path.abspath(__file__)))
PY = "/venv/bin/python"

CHECKS = {
 "C13": dict(category="model_checking", design="DESIGN.md §5 C13",
   technique="explicit-state BFS over merge/delete histories on the real functions, lock-step lumping model; exhaustive deletion sets n<=12",
   text="Every merge/delete history up to depth 3 over the full subset alphabet on 4-cell matrices (depth 2 on 5 cells), all 2^n-2 deletion sets and all single-group merges for n=9..12, and the cut_and_merge limit/energy menu are executed on the real code (dense and csr in lock-step) and compared exactly with a union-find lumping model; histories are the quantifier of the property, so a bounded-exhaustive history exploration is the right level.",
   note="Trusted: the 60-line union-find/lumping model in checks/c13.py; integer base matrices (exact arithmetic). Bound: n<=6 for deep histories, n<=12 for depth 1-2."),

 "C12": dict(category="model_checking", design="DESIGN.md §5 C12",
   technique="explicit-state BFS over all trajectories (append-one-symbol events) with counting model and incremental window conformance",
   text="Every assigned trajectory over {0,1,2,NaN} up to length 6 (thorough 8; second alphabet with 4-5 cells) is a state; in every state the real MSM matrix for every tau in 1..4 (also tau > length), both window modes and two cell counts is compared entry-for-entry with the counting model, and the real window generators are compared incrementally with the parent state. Off-by-one and NaN-handling errors live at trajectory ends, which is exactly what all short sequences cover.",
   note="Trusted: 30-line counting model transcribed from the statement. Bound: length <= 6/8, <= 5 symbols."),
 "C01": dict(category="exploration", design="DESIGN.md §5 C01",
   technique="exhaustive enumeration of sparsity patterns x energy alphabet x storage forms against a dense-loop oracle",
   text="All symmetric sparsity patterns on 2..5 nodes x all energy vectors over a 5-letter alphabet that straddles the 500 kJ/mol cap x csr/coo storage pairs x temperatures are built with the real SQRA.get_rate_matrix and compared with the formula entry by entry, plus row sums, detailed balance per pair, shift invariance and linearity in D.",
   note="Trusted: the dense double-loop oracle; fixed prime-based S, h, V tables. Real-valued inputs are represented by a structured finite alphabet only."),
 "C16": dict(category="exploration", design="DESIGN.md §5 C16",
   technique="exhaustive enumeration of the radial-grid input grammar against an exact-rational oracle",
   text="Every string of the stated grammar (lists/tuples of up to 3-4 decimals in every order with whitespace variants, linspace and range/arange parameterisations, lists with a negative entry) is parsed by the real TranslationParser and compared with intended values computed in fractions.Fraction; increments, shell boundaries, interleaving and identifier consistency are checked on every result.",
   note="Trusted: Fraction arithmetic oracle. Bound: decimals from an 8-value menu, list length <= 4."),
 "C17": dict(category="exploration", design="DESIGN.md §5 C17",
   technique="exhaustive enumeration of the grid-name token language (<=3/4 tokens, both roles) against stated constraints",
   text="Every underscore-joined name of up to 3 (thorough 4) tokens over a 22-token alphabet is parsed for both roles; only the constraints in the statement are asserted (ValueError or valid algorithm_N, N=1 iff zero algorithm, default algorithm, ambiguity rejected, fixed point, constructible).",
   note="Trusted: constraint predicates in checks/c17.py. Dimension-tag tokens are excluded as the statement leaves them open."),
 "C19": dict(category="exploration", design="DESIGN.md §5 C19",
   technique="exhaustive enumeration of the small-size configuration box x getters, outcome classification",
   text="The full box n_b x n_o in 1..5 (thorough 1..8 and all algorithms) x 1-3 radii x both position modes is constructed and all five getters are called; each outcome must be an array of the right shape or ValueError (QhullError only in Cartesian mode with <3 directions).",
   note="Trusted: outcome classification only (values are the subject of C02-C06)."),
}
NOT_YET = {}

def main():
    props = [json.loads(l) for l in open(os.path.join(VERIF, "properties.jsonl"))]
    checks = []
    na = []
    for p in props:
        pid = p["id"]
        if pid in CHECKS:
            c = CHECKS[pid]
            checks.append({
                "property_id": pid,
                "quick_cmd": f"{PY} /verif/run_check.py {pid} --tier quick",
                "thorough_cmd": f"{PY} /verif/run_check.py {pid} --tier thorough",
                "evidence_file": f"/verif/evidence/{pid}.json",
                "replay_cmd_template": f"{PY} /verif/run_check.py {pid} --replay {{path}}",
                "engine": "molgri-mc",
                "level_claimed": {"category": c["category"], "text": c["text"], "design_ref": c["design"]},
                "level_note": c["note"],
                "technique": c["technique"],
            })
        else:
            na.append({"property_id": pid, "reason": NOT_YET.get(pid, "bounded-exhaustive check designed (DESIGN.md §5) but its driver is not built yet; not claimed until it runs green on the unchanged tree")})
    fixes = subprocess.run(["git", "-C", "/repo", "log", "--format=%h %s", "--grep=^fix:"], capture_output=True, text=True).stdout.strip().splitlines()
    man = {
        "version": 1,
        "setup_cmd": "bash /verif/setup.sh",
        "hooks": {"guard": "MOLGRI_VERIF", "enable": "no source hooks are needed: the checks import /repo's working tree directly (editable install; VERIF_REPO=<dir> selects another tree) and reach every seam (transitions.eigs, numpy global RNG, stdout) from outside; run_check.py sets MOLGRI_VERIF=1 only as a marker",
                  "baseline_off_cmd": "cd /repo && /venv/bin/python -m pytest -ra -q -p no:cacheprovider --timeout=900 --continue-on-collection-errors",
                  "source_commits": [], "add_only": True},
        "engines": [{"name": "molgri-mc", "path": "/verif/run_check.py", "serves_properties": sorted(CHECKS),
                     "kind_free_text": "hand-written bounded-exhaustive explorer for Python: explicit-state BFS over operation histories (mc/explorer.py) and exhaustive input/configuration enumeration against independent reference models (checks/*.py), executed on the real molgri code"}],
        "checks": checks,
        "not_applicable": na,
        "notes": "fix: commits in /repo (genuine defects found by the checks): " + "; ".join(fixes),
    }
    with open(os.path.join(VERIF, "MANIFEST.json"), "w") as f:
        json.dump(man, f, indent=1)
    schema = "/root/.vp/MANIFEST.schema.json"
    if os.path.exists(schema):
        r = subprocess.run(["python3-vt", "-c", "import json,sys,jsonschema;jsonschema.Draft202012Validator(json.load(open(sys.argv[1]))).validate(json.load(open(sys.argv[2])))", schema, os.path.join(VERIF, "MANIFEST.json")], capture_output=True, text=True)
        print("manifest valid" if r.returncode == 0 else r.stderr[-800:])
if __name__ == "__main__":
    main()

"""C09 -- full-grid row order is position-major, rotation-minor and is recoverable.

Shape B: rotation grids x direction grids x radial grids; every row, the index helpers for None / every index subset of
size <= 2 / every prefix, suffix and strided slice, and the decomposition back into the three generating grids.
"""
from __future__ import annotations

import itertools
from fractions import Fraction as F

import numpy as np

from mc.core import Report, viol, collect_samples

from molgri.space.fullgrid import FullGrid, from_full_array_to_o_b_t
from molgri.space.rotobj import SphereGrid3DFactory, SphereGrid4DFactory
from molgri.naming import GridNameParser

PROPERTY = "C09"
RADIALS = [("0.3", ["0.3"]), ("[0.1,0.2]", ["0.1", "0.2"]), ("[0.2, 0.1, 0.45]", ["0.1", "0.2", "0.45"]),
           ("linspace(0.2, 0.4, 4)", [str(F(2, 10) + F(2, 30) * i) for i in range(4)])]


def fresh_grid(name, role):
    p = GridNameParser(name, role)
    if role == "o":
        return np.asarray(SphereGrid3DFactory.create(p.get_alg(), p.get_N()).get_grid_as_array(), dtype=float)
    return np.asarray(SphereGrid4DFactory.create(p.get_alg(), p.get_N()).get_grid_as_array(only_upper=True), dtype=float)


def run_case(case):
    b, o, t, tv = case["b"], case["o"], case["t"], case["radii_nm"]
    pre = f"C09|b={b}|o={o}|t={t}"
    vs = []
    r = np.array([float(F(x) * 10) for x in tv])
    try:
        fg = FullGrid(b, o, t)
        arr = np.asarray(fg.get_full_grid_as_array(), dtype=float)
        dirs = fresh_grid(o, "o")
        quats = fresh_grid(b, "b")
    except Exception as e:
        return {"violations": [viol(pre + "|raises", f"{type(e).__name__}: {str(e)[:120]}", case)], "rows": 0, "index_sets": 0}
    n_o, n_b, n_t = len(dirs), len(quats), len(r)
    n = n_o * n_b * n_t
    if arr.shape != (n, 7):
        return {"violations": [viol(pre + "|shape", "array shape is not (n_t*n_o*n_b, 7)", case, expected=[n, 7],
                                    observed=list(arr.shape))], "rows": 0, "index_sets": 0}
    if (fg.get_b_N(), fg.get_o_N(), fg.get_t_N(), len(fg)) != (n_b, n_o, n_t, n):
        vs.append(viol(pre + "|counts", "get_b_N/get_o_N/get_t_N/len disagree with the generating grids", case,
                       expected=[n_b, n_o, n_t, n], observed=[fg.get_b_N(), fg.get_o_N(), fg.get_t_N(), len(fg)]))
    if n > 20000:
        rows_idx = np.arange(n)
        tt_, oo_ = np.divmod(rows_idx // n_b, n_o)
        want_all = np.concatenate([r[tt_][:, None] * dirs[oo_], quats[rows_idx % n_b]], axis=1)
        badrows = np.nonzero(~np.all(np.isclose(arr, want_all, rtol=0, atol=1e-9), axis=1))[0]
        if len(badrows):
            vs.append(viol(pre + "|row", f"row {int(badrows[0])} is not radius*direction + rotation ({len(badrows)} rows)", case))
    for row in (range(n) if n <= 20000 else []):
        tt, oo = divmod(row // n_b, n_o)
        want = np.concatenate([r[tt] * dirs[oo], quats[row % n_b]])
        if not np.allclose(arr[row], want, rtol=0, atol=1e-9):
            vs.append(viol(pre + "|row", f"row {row} is not radius[{tt}]*direction[{oo}] + rotation[{row % n_b}]", case,
                           expected=want.tolist(), observed=arr[row].tolist()))
            break
    # index helpers
    idx_sets = [None]
    if n > 20000:
        probe = sorted({0, 1, n_b, 32767, 32768, 65535, 65536, n - 1, n - n_b, 2 * 32768 - 1} & set(range(n)))
        idx_sets += [[i] for i in probe] + [probe, list(range(0, n, 977)), list(range(n - 1, -1, -4099))]
    idx_sets += [[i] for i in (range(n) if n <= 20000 else [])]
    if n <= 40:
        idx_sets += [list(c) for c in itertools.permutations(range(n), 2)]
    else:
        idx_sets += [[i, (i * 7 + 3) % n] for i in range(n)]
    if n > 20000:
        idx_sets_tail = []
    idx_sets += [list(range(k)) for k in range(1, n + 1, max(1, n // 12))]
    idx_sets += [list(range(k, n)) for k in range(0, n, max(1, n // 12))]
    idx_sets += [list(range(s0, n, st)) for st in (2, 3, n_b, n_o) for s0 in (0, 1) if st > 0 and s0 < n]
    # numpy-style index subsets: negative row numbers, boolean masks, plain python lists
    extra_sets = []
    if n >= 2:
        extra_sets.append(("negative", np.array([-1, -2, -n, 0, -(n // 2) - 1 if n > 2 else -1])))
        m1 = np.zeros(n, dtype=bool); m1[::2] = True
        m2 = np.zeros(n, dtype=bool); m2[-1] = True; m2[n // 3] = True
        extra_sets += [("mask", m1), ("mask", m2), ("mask", np.ones(n, dtype=bool)), ("list", list(range(n - 1, -1, -3)))]
    # the empty subset, in its three spellings
    extra_sets += [("empty", []), ("empty", np.array([], dtype=int)), ("empty", np.zeros(n, dtype=bool))]
    for kind_, a in extra_sets:
        try:
            pi_ = np.asarray(fg.get_position_index(a)); qi_ = np.asarray(fg.get_quaternion_index(a))
        except Exception as e:
            vs.append(viol(pre + f"|index_{kind_}_raises", f"index helper raised {type(e).__name__} for a {kind_} index", case))
            continue
        full = np.arange(n)[np.asarray(a, dtype=int) if kind_ == "empty" and not isinstance(a, np.ndarray) else a]
        if not (pi_.shape == full.shape and qi_.shape == full.shape and np.array_equal(pi_, full // n_b) and np.array_equal(qi_, full % n_b)):
            vs.append(viol(pre + f"|index_helpers_{kind_}", f"index helpers are not (n div n_b, n mod n_b) for a {kind_} index "
                           "subset", case, expected=(full // n_b).tolist()[:8], observed=pi_.tolist()[:8]))
    count = 0
    for ids in idx_sets:
        count += 1
        a = None if ids is None else np.array(ids, dtype=int)
        try:
            pi_ = np.asarray(fg.get_position_index(a))
            qi_ = np.asarray(fg.get_quaternion_index(a))
        except Exception as e:
            vs.append(viol(pre + "|index_raises", f"index helper raised {type(e).__name__} for {ids}", case))
            break
        full = np.arange(n) if ids is None else a
        if not (np.array_equal(pi_, full // n_b) and np.array_equal(qi_, full % n_b)):
            vs.append(viol(pre + "|index_helpers", f"index helpers are not (n div n_b, n mod n_b) for indices "
                           f"{'None' if ids is None else ids[:6]}", case, expected=[(full // n_b).tolist()[:8],
                                                                                     (full % n_b).tolist()[:8]],
                           observed=[pi_.tolist()[:8], qi_.tolist()[:8]]))
            break
    # repeated calls on the same object and input preservation
    try:
        arr2 = np.asarray(fg.get_full_grid_as_array(), dtype=float)
        if not np.array_equal(arr, arr2):
            vs.append(viol(pre + "|second_call", "get_full_grid_as_array differs between two calls on one object", case))
        keep = arr.copy()
        from_full_array_to_o_b_t(arr)
        fg.get_position_index(np.arange(n))
        if not np.array_equal(arr, keep) or not np.array_equal(np.asarray(fg.get_full_grid_as_array(), dtype=float), keep):
            vs.append(viol(pre + "|mutation", "decomposition/index helpers modified the grid array", case))
    except Exception as e:
        vs.append(viol(pre + "|repeat_raises", f"{type(e).__name__}: {str(e)[:100]}", case))
    # decomposition
    try:
        o2, b2, t2 = from_full_array_to_o_b_t(arr)
        ok = (np.shape(o2) == dirs.shape and np.allclose(o2, dirs, atol=1e-7) and np.shape(b2) == quats.shape
              and np.allclose(b2, quats, atol=1e-7) and np.shape(t2) == r.shape and np.allclose(t2, r, atol=1e-7))
        if not ok:
            vs.append(viol(pre + "|decomposition", "from_full_array_to_o_b_t does not return the generating grids in order",
                           case, expected=[list(dirs.shape), list(quats.shape), r.tolist()],
                           observed=[list(np.shape(o2)), list(np.shape(b2)), np.asarray(t2).tolist()]))
    except Exception as e:
        vs.append(viol(pre + "|decomposition_raises", f"{type(e).__name__}: {str(e)[:100]}", case))
    return {"violations": vs, "rows": n, "index_sets": count}


def index_sweep_case(case):
    """index helpers for EVERY rotation-grid size in a range (the helpers depend on n_b and the number of positions only)"""
    vs = []
    count = 0
    for n_b in case["ns"]:
        try:
            fg = FullGrid(f"randomQ_{n_b}", case["o"], case["t"])
            n = len(fg)
            pi_, qi_ = np.asarray(fg.get_position_index()), np.asarray(fg.get_quaternion_index())
            full = np.arange(n)
            sub = np.arange(n - 1, -1, -3)
            ok = (fg.get_b_N() == n_b and np.array_equal(pi_, full // n_b) and np.array_equal(qi_, full % n_b)
                  and np.array_equal(np.asarray(fg.get_position_index(sub)), sub // n_b)
                  and np.array_equal(np.asarray(fg.get_quaternion_index(sub)), sub % n_b))
        except Exception as e:
            vs.append(viol(f"C09|index_sweep|n_b={n_b}|o={case['o']}|t={case['t']}|raises", f"{type(e).__name__}: {str(e)[:100]}", case))
            continue
        count += n
        if not ok:
            bad = np.nonzero(pi_ != full // n_b)[0] if pi_.shape == full.shape else [0]
            vs.append(viol(f"C09|index_sweep|n_b={n_b}|o={case['o']}|t={case['t']}", "index helpers are not (n div n_b, n mod n_b); "
                           f"first wrong row {int(bad[0]) if len(bad) else -1}", case))
    return {"violations": vs[:5], "rows": count, "index_sets": 3 * len(case["ns"])}


def cases(tier):
    if tier == "quick":
        bs = ["1", "cube4D_2", "cube4D_3", "cube4D_4", "cube4D_7", "randomQ_5"]
        os_ = ["1", "ico_2", "ico_5", "ico_12", "cube3D_9", "randomS_6"]
    else:
        bs = ["1"] + [f"cube4D_{n}" for n in (2, 3, 4, 7, 8, 9, 16, 40)] + [f"randomQ_{n}" for n in (2, 5, 11)] + ["fulldiv_8"]
        os_ = ["1"] + [f"ico_{n}" for n in (2, 5, 12, 13, 42, 43)] + [f"cube3D_{n}" for n in (3, 8, 9, 26, 27)] + \
              [f"randomS_{n}" for n in (2, 6, 17)]
    out = [{"b": b, "o": o, "t": t, "radii_nm": tv} for b in bs for o in os_ for t, tv in RADIALS]
    # float-step range() text format: 30 radii 0.10, 0.11, ... 0.39 nm (the last arange value lies just below the stop)
    rr = [str(F(10 + i, 100)) for i in range(30)]
    for b, o in (("1", "ico_3"), ("cube4D_2", "1"), ("randomQ_3", "cube3D_2")):
        out.append({"b": b, "o": o, "t": "range(0.1, 0.4, 0.01)", "radii_nm": rr})
    # radii that are not exact at any short decimal (thirds) under direction grids of a few dozen points
    for b, o in (("1", "ico_42"), ("cube4D_2", "randomS_20"), ("1", "cube3D_26")):
        out.append({"b": b, "o": o, "t": "linspace(0.2, 0.5, 10)", "radii_nm": [str(F(2, 10) + F(3, 90) * i) for i in range(10)]})
        out.append({"b": b, "o": o, "t": "linspace(0.1, 0.2, 4)", "radii_nm": [str(F(1, 10) + F(1, 30) * i) for i in range(4)]})
    # irregular direction grids with many (direction, shell) pairs (per-shell copies of a direction differ by an ulp)
    for b, o, t, tv in (("1", "randomS_50", "linspace(0.2, 1.1, 10)", [str(F(2, 10) + F(1, 10) * i) for i in range(10)]),
                        ("1", "randomS_500", "[0.2, 0.3, 0.4]", ["0.2", "0.3", "0.4"]),
                        ("cube4D_2", "randomS_120", "linspace(0.2, 0.5, 10)", [str(F(2, 10) + F(3, 90) * i) for i in range(10)])):
        out.append({"b": b, "o": o, "t": t, "radii_nm": tv})
    # range() texts whose start is written with finer decimals than the step (and a default step of 1)
    for b, o in (("1", "ico_3"), ("cube4D_3", "cube3D_2")):
        out.append({"b": b, "o": o, "t": "range(0.25, 1.5, 0.5)", "radii_nm": ["0.25", "0.75", "1.25"]})
        out.append({"b": b, "o": o, "t": "range(0.125, 0.6, 0.25)", "radii_nm": ["0.125", "0.375"]})
        out.append({"b": b, "o": o, "t": "range(1.5, 4)", "radii_nm": ["1.5", "2.5", "3.5"]})
    # shells that nearly coincide (relative distance 3e-8 and 2e-6)
    for b, o in (("1", "ico_5"), ("cube4D_3", "cube3D_4"), ("randomQ_4", "1")):
        out.append({"b": b, "o": o, "t": "[0.3, 0.30000001, 0.5]", "radii_nm": ["0.3", "0.30000001", "0.5"]})
        out.append({"b": b, "o": o, "t": "[1, 1.000002, 1.00001]", "radii_nm": ["1", "1.000002", "1.00001"]})
    # one large grid whose position-cell count crosses 2**15 and whose row count crosses 2**16 (index dtype overflow)
    big = [str(F(1, 10) + F(209, 2090) * i) for i in range(210)]
    out.append({"b": "cube4D_2", "o": "ico_162", "t": "linspace(0.1, 21, 210)",
                "radii_nm": [str(F(1, 10) + (F(21) - F(1, 10)) * F(i, 209)) for i in range(210)]})
    return out


def run(ctx):
    rep = Report(PROPERTY, "exploration")
    cs = cases(ctx.tier)
    res = ctx.pmap(run_case, cs, chunksize=1, recheck=3)
    # building a rotation grid costs ~N^2 (56 s at N = 260): every size to 112 in the quick tier, to 272 in the thorough one
    top = 273 if ctx.thorough else 113
    sw = [{"sweep": True, "ns": [n for n in range(1, top) if n % 32 == j], "o": "ico_3", "t": "[0.1,0.2]"} for j in range(32)]
    res = res + ctx.pmap(index_sweep_case, sw, chunksize=1, recheck=1)
    for r in res:
        rep.add_violations(r["violations"])
    rep.coverage = {
        "evaluations": sum(r["rows"] + r["index_sets"] for r in res),
        "distinct_nontrivial": sum(1 for r in res if r["rows"] >= 4),
        "rule": "rotation grids x direction grids x radial grids (1-4 radii, unsorted input); every row against "
                "radius[t]*direction[o] ++ rotation[n mod n_b] built from freshly created grids and exact-rational radii; "
                "index helpers for None, every single index, every ordered pair (n<=40), prefixes, suffixes, strided "
                "slices; decomposition; evaluations = rows + index sets; distinct_nontrivial = grids with >= 4 rows",
        "samples": collect_samples([f"{c['b']}/{c['o']}/{c['t']}" for c in cs], 5), "exhaustive": True,
        "bound": {"n_b": "1..7" if ctx.tier == "quick" else "1..40", "n_o": "1..12" if ctx.tier == "quick" else "1..43",
                  "index_helper_sweep_n_b": "1..112" if ctx.tier == "quick" else "1..272"},
    }
    rep.assumptions = ["direction / rotation grids of the oracle come from separately constructed factory objects"]
    return rep


def replay(case):
    if case.get("sweep"):
        return index_sweep_case(case)["violations"]
    return run_case(case)["violations"]

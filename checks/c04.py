"""C04 -- rotation-grid neighbour relations are correct on SO(3) = S^3 modulo sign.

Shape B: cube4D and randomQ x every N in a range; every pair (i,j) compared with O-S3 (gnomonic polygon clipping of the
Voronoi faces of {+-q}) folded over the sign.
"""
from __future__ import annotations

import numpy as np

from mc.core import Report, viol, collect_samples, Isolated, Sequence
from mc.histories import explore_getter_orders
from mc.oracles.s3 import rotation_voronoi

from molgri.space.rotobj import SphereGrid4DFactory

PROPERTY = "C04"
TOL_D = 1e-7
TOL_B = 1e-6


def run_case(case):
    alg, N = case["alg"], case["N"]
    pre = f"C04|{alg}_{N}"
    vs = []
    try:
        g = SphereGrid4DFactory.create(alg, N)
        G = np.asarray(g.get_grid_as_array(), dtype=float)
        As = g.get_voronoi_adjacency().tocoo()
        Bs = g.get_cell_borders().tocoo()
        Ds = g.get_center_distances().tocoo()
    except Exception as e:
        return {"violations": [viol(pre + "|raises", f"rotation grid geometry raised {type(e).__name__}: {str(e)[:120]}",
                                    case, observed=type(e).__name__)], "pairs": 0, "two_face": 0, "through_antipode": 0}
    A, B, D = As.toarray().astype(bool), Bs.toarray().astype(float), Ds.toarray().astype(float)
    if A.shape != (N, N) or B.shape != (N, N) or D.shape != (N, N) or G.shape != (N, 4):
        return {"violations": [viol(pre + "|shape", "matrices are not N x N", case, observed=list(A.shape))], "pairs": 0,
                "two_face": 0, "through_antipode": 0}
    o = rotation_voronoi(G)
    if o["touches"]:
        return {"violations": [], "pairs": 0, "two_face": 0, "through_antipode": 0,
                "harness": f"face touches the clipping square for {alg}_{N}"}
    for name, M in (("adjacency", A), ("borders", B), ("distances", D)):
        if not np.allclose(M, M.T, rtol=0, atol=1e-12):
            bad = np.argwhere(~np.isclose(M, M.T, rtol=0, atol=1e-12))
            i, j = bad[0].tolist()
            vs.append(viol(pre + f"|{name}|asymmetric", f"{name} matrix asymmetric in {len(bad)} entries, first ({i},{j})",
                           case, observed=[float(M[i, j]), float(M[j, i])]))
        if np.any(np.diag(M) != 0):
            vs.append(viol(pre + f"|{name}|diagonal", f"{name} matrix has a non-empty diagonal", case))
    if not (np.array_equal(A, B != 0) and np.array_equal(A, D != 0)):
        vs.append(viol(pre + "|pattern", "adjacency, borders and distances do not share one sparsity pattern", case))
    if not (np.array_equal(As.row, Bs.row) and np.array_equal(As.col, Bs.col)
            and np.array_equal(As.row, Ds.row) and np.array_equal(As.col, Ds.col)):
        vs.append(viol(pre + "|entry_order", "stored entry order differs between the three matrices", case))
    if o["diag_faces"]:
        vs.append(viol(pre + "|self_face", "q and -q of one rotation share a face (harness cannot fold this)", case,
                       observed=o["diag_faces"]))
    X = o["adj"]
    bad = np.argwhere(A != X)
    if len(bad):
        i, j = bad[0].tolist()
        vs.append(viol(pre + "|adjacency", f"{len(bad)} entries differ from the folded Voronoi adjacency, first ({i},{j})",
                       case, expected=bool(X[i, j]), observed=bool(A[i, j])))
    both = A & X
    if both.any():
        ed = np.where(both, np.abs(D - o["dist"]), 0)
        if ed.max() > TOL_D:
            i, j = np.unravel_index(np.argmax(ed), ed.shape)
            vs.append(viol(pre + "|distance", f"distance of pair ({i},{j}) is not the sign-minimised quaternion angle",
                           case, expected=float(o["dist"][i, j]), observed=float(D[i, j])))
        one = both & (o["nfaces"] == 1)
        eb = np.where(one, np.abs(B - np.where(one, o["border"], 0)), 0)
        if eb.max() > TOL_B:
            i, j = np.unravel_index(np.argmax(eb), eb.shape)
            vs.append(viol(pre + "|border", f"border of pair ({i},{j}) is not the spherical area of the shared face",
                           case, expected=float(o["border"][i, j]), observed=float(B[i, j])))
        two = both & (o["nfaces"] == 2)
        if two.any() and not np.all(np.isfinite(B[two]) & (B[two] > 0)):
            vs.append(viol(pre + "|border_two_faces", "pair touching through two faces has a non-positive border", case))
    wb = float(eb.max()) if both.any() else 0.0
    return {"violations": vs, "pairs": N * (N - 1) // 2, "two_face": int((o["nfaces"] == 2).sum() // 2), "worst_border": wb,
            "adjacent": int(X.sum() // 2)}


SG_GETTERS = {"volumes": lambda g: g.get_spherical_voronoi().get_voronoi_volumes(),
              "volumes_approx": lambda g: g.get_spherical_voronoi().get_voronoi_volumes(approx=True),
              "adjacency": lambda g: g.get_voronoi_adjacency(), "borders": lambda g: g.get_cell_borders(),
              "distances": lambda g: g.get_center_distances()}


def order_case(case):
    """all getter words of length <= 3 on ONE grid object: every observation equals the first call on a fresh object"""
    alg, N = case["alg"], case["N"]
    import itertools
    allw = [list(w) for d in (2, 3) for w in itertools.product(SG_GETTERS, repeat=d)]
    bad, nwords, calls = explore_getter_orders(lambda: SphereGrid4DFactory.create(alg, N), SG_GETTERS, words=allw[case.get("lo", 0):case.get("hi", len(allw))])
    vs = []
    for w, pos, g, exp, obs in bad[:3]:
        vs.append(viol(f"C04|getter_order|{alg}_{N}|word={'>'.join(w[:pos + 1])}", f"{g} after {w[:pos]} on the same grid "
                       "object differs from the first call on a fresh object", dict(case, word=w), exp, obs))
    return {"violations": vs, "pairs": 0, "adjacent": 0, "degenerate": 0, "two_face": 0, "words": nwords, "calls": calls}


def cases(tier):
    if tier == "quick":
        Ns = list(range(4, 41)) + [66, 70]          # 132 / 140 double-cover cells (past 128)
    else:
        Ns = list(range(4, 81)) + [100, 150, 272]
    return [{"alg": a, "N": n} for n in Ns for a in ("cube4D", "randomQ")]


def _label(c):
    return f"{c['alg']}_{c['N']}"


def seq_cases(tier):
    """Several grids built in ONE fresh process: every ordered pair of algorithms at the same N, the same grid again after
    another one, a neighbouring N in between."""
    algs = ('cube4D', 'randomQ')
    out = []
    for N in ((8, 15) if tier == "quick" else (5, 8, 12, 15, 24, 30)):
        for a in algs:
            for b in algs:
                if a != b:
                    out.append({"seq": [{"alg": a, "N": N}, {"alg": b, "N": N}, {"alg": a, "N": N}]})
            out.append({"seq": [{"alg": a, "N": N}, {"alg": a, "N": N + 1}, {"alg": a, "N": N}, {"alg": a, "N": N - 1}]})
    return out


def run(ctx):
    rep = Report(PROPERTY, "exploration")
    cs = cases(ctx.tier)
    cs_sorted = sorted(cs, key=lambda c: -c["N"])          # big grids first for load balance
    res = ctx.pmap(run_case, cs_sorted, chunksize=1, recheck=2)
    ocs = [{"order": True, "alg": a, "N": n, "lo": lo, "hi": lo + 15} for lo in range(0, 150, 15) for a, n in [('cube4D', 6), ('randomQ', 7)]]
    ores = ctx.pmap(order_case, ocs, chunksize=1, recheck=1)
    for r in ores:
        rep.add_violations(r["violations"])
    scs = seq_cases(ctx.tier)
    sres = ctx.pmap(Isolated(Sequence(run_case, _label)), scs, chunksize=1, recheck=1)
    for r in sres:
        rep.add_violations(r["violations"])
    for r in res:
        rep.add_violations(r["violations"])
        if r.get("harness"):
            rep.harness_errors.append(r["harness"])
    rep.coverage = {
        "evaluations": sum(r["pairs"] for r in res),
        "distinct_nontrivial": len(cs),
        "rule": "cube4D and randomQ x every N in the bound; every unordered pair (i,j) incl. index 0: adjacency against "
                "folded O-S3 faces, distance = arccos|q_i.q_j|, border = face area when exactly one face; "
                "evaluations = pairs checked",
        "samples": collect_samples([f"{c['alg']}_{c['N']}" for c in cs], 6),
        "adjacent_pairs": sum(r.get("adjacent", 0) for r in res),
        "worst_border_deviation": max(r.get("worst_border", 0.0) for r in res),
        "pairs_touching_through_two_faces": sum(r["two_face"] for r in res),
        "getter_order_words": sum(r["words"] for r in ores), "getter_order_calls": sum(r["calls"] for r in ores),
        "histories_in_one_process": len(scs), "grids_in_histories": sum(r["members"] for r in sres),
        "exhaustive": True, "bound": {"N": "4..40, 66, 70" if ctx.tier == "quick" else "4..80, 100, 150, 272"},
    }
    rep.assumptions = ["border tolerance 1e-6 absolute (measured deviation 3e-9 after fix F14)", "distance tolerance 1e-7",
                       "border value not compared for pairs that touch through two faces (left open by the statement)"]
    return rep


def replay(case):
    if case.get("order"):
        return order_case(case)["violations"]
    if "seq" in case:
        return Sequence(run_case, _label)(case)["violations"]
    return run_case(case)["violations"]

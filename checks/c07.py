"""C07 -- every generated sphere grid is N distinct unit points; rotations are unique.

Shape B: every algorithm x every N in a range through SphereGridFactory.create, plus ALL prefixes of the polytope node
arrays (incremental minimum separation) up to the deepest level in the bound.
"""
from __future__ import annotations

import numpy as np
from scipy.spatial.distance import cdist

from mc.core import Report, viol, collect_samples

from molgri.space.rotobj import SphereGridFactory
from molgri.space.polytopes import IcosahedronPolytope, Cube3DPolytope, Cube4DPolytope
from molgri.space.fullgrid import FullGrid

PROPERTY = "C07"


def canonical_half(q):
    for x in q:
        if abs(x) > 1e-9:
            return x > 0
    return False


def min_sep(A, fold):
    if len(A) < 2:
        return np.inf
    d = cdist(A, A)
    if fold:
        d = np.minimum(d, cdist(A, -A))
    np.fill_diagonal(d, np.inf)
    return float(d.min())


def run_case(case):
    if case.get("kind") == "prefix":
        return prefix_case(case)
    if case.get("kind") == "byname":
        return byname_case(case)
    if case.get("kind") == "zero":
        return zero_case(case)
    if case.get("kind") == "fulldiv_bad":
        try:
            SphereGridFactory.create(alg_name="fulldiv", N=case["N"], dimensions=4)
            return {"violations": [viol(f"C07|fulldiv_{case['N']}|accepted", "fulldiv accepted a size that is not one of its "
                                        "admissible N (8, 40, 272, 2080)", case)], "N": case["N"]}
        except ValueError:
            return {"violations": [], "N": case["N"]}
        except Exception as e:
            return {"violations": [viol(f"C07|fulldiv_{case['N']}|raises", f"unsupported fulldiv size raised "
                                        f"{type(e).__name__} instead of ValueError", case)], "N": case["N"]}
    alg, N, dim = case["alg"], case["N"], case["dim"]
    pre = f"C07|{alg}_{N}"
    vs = []
    kw = {"time_generation": True} if case.get("timed") else {}
    if case.get("timed"):
        pre += "|timed"
    try:
        g = SphereGridFactory.create(alg_name=alg, N=N, dimensions=dim, **kw)
        G = np.asarray(g.get_grid_as_array(only_upper=True) if dim == 4 else g.get_grid_as_array(), dtype=float)
    except Exception as e:
        return {"violations": [viol(pre + "|raises", f"{type(e).__name__}: {str(e)[:120]}", case,
                                    observed=type(e).__name__)], "N": N}
    if G.shape != (N, dim):
        return {"violations": [viol(pre + "|shape", "grid does not have exactly N rows", case, expected=[N, dim],
                                    observed=list(G.shape))], "N": N}
    if np.abs(np.linalg.norm(G, axis=1) - 1).max() > 1e-12:
        vs.append(viol(pre + "|norm", "rows are not of unit norm", case,
                       observed=float(np.abs(np.linalg.norm(G, axis=1) - 1).max())))
    sep = min_sep(G, fold=(dim == 4))
    if N > 1:
        if sep < 1e-6:
            vs.append(viol(pre + "|distinct", "two rows coincide" + (" up to sign (same rotation)" if dim == 4 else ""),
                           case, observed=sep))
        elif alg in ("ico", "cube3D") and sep < 1 / np.sqrt(N):
            vs.append(viol(pre + "|separation", "minimum chord distance below 1/sqrt(N)", case, expected=1 / np.sqrt(N),
                           observed=sep))
        elif alg in ("cube4D", "fulldiv") and sep < 0.6 / np.cbrt(N):
            vs.append(viol(pre + "|separation", "minimum chord distance (sign-folded) below 0.6/cbrt(N)", case,
                           expected=0.6 / np.cbrt(N), observed=sep))
    if dim == 4:
        if not all(canonical_half(q) for q in G):
            i = [k for k, q in enumerate(G) if not canonical_half(q)][0]
            vs.append(viol(pre + "|hemisphere", f"row {i} is not in the canonical half (first non-zero coordinate positive)",
                           case, observed=G[i].tolist()))
        full = np.asarray(g.get_grid_as_array(only_upper=False), dtype=float)
        if full.shape != (2 * N, 4) or not np.array_equal(full[:N], G) or not np.array_equal(full[N:], -G):
            vs.append(viol(pre + "|double_cover", "full array is not [G; -G] exactly", case, observed=list(full.shape)))
    return {"violations": vs, "N": N}


def zero_case(case):
    """a zero grid requested directly with N != 1: the unchanged tree answers with the one-point grid (N is ignored);
    accepted outcomes are ValueError, or a grid of 1 or N rows that are of unit norm and pairwise distinct"""
    alg, N, dim = case["alg"], case["N"], case["dim"]
    pre = f"C07|{alg}_N={N}|explicit_zero"
    try:
        g = SphereGridFactory.create(alg_name=alg, N=N, dimensions=dim)
        G = np.asarray(g.get_grid_as_array(only_upper=True) if dim == 4 else g.get_grid_as_array(), dtype=float)
    except ValueError:
        return {"violations": [], "N": N}
    except Exception as e:
        return {"violations": [viol(pre + "|raises", f"{type(e).__name__}: {str(e)[:100]}", case)], "N": N}
    vs = []
    if G.ndim != 2 or G.shape[1] != dim or len(G) not in (1, N):
        vs.append(viol(pre + "|shape", "zero grid has neither 1 nor N rows", case, observed=list(G.shape)))
    elif np.abs(np.linalg.norm(G, axis=1) - 1).max() > 1e-12 or (len(G) > 1 and min_sep(G, dim == 4) < 1e-6):
        vs.append(viol(pre + "|distinct", "rows of the zero grid are not distinct unit vectors / distinct rotations", case,
                       observed=G.tolist()[:4]))
    return {"violations": vs, "N": N}


def byname_case(case):
    vs = []
    try:
        fg = FullGrid(case["b"], case["o"], "[0.1, 0.2]")
        q = np.asarray(fg.b_rotations.get_grid_as_array(only_upper=True), dtype=float)
        o = np.asarray(fg.get_position_grid().get_o_grid().get_grid_as_array(), dtype=float)
        if case["b_one"] and not (q.shape == (1, 4) and np.allclose(np.abs(q[0]), [0, 0, 0, 1], atol=1e-12)):
            vs.append(viol(f"C07|byname|b={case['b']}|identity", "rotation grid requested with N=1 is not the identity", case,
                           observed=q.tolist()))
        if case["o_one"] and not (o.shape == (1, 3) and np.allclose(o[0], [0, 0, 1], atol=1e-12)):
            vs.append(viol(f"C07|byname|o={case['o']}|z", "direction grid requested with N=1 is not the z direction", case,
                           observed=o.tolist()))
    except Exception as e:
        vs.append(viol(f"C07|byname|b={case['b']}|o={case['o']}|raises", f"{type(e).__name__}: {str(e)[:100]}", case))
    return {"violations": vs, "N": 1}


def prefix_case(case):
    """all prefixes of the polytope getter, incremental minimum separation"""
    kind, L = case["poly"], case["level"]
    pre = f"C07|prefix|{kind}|level={L}"
    vs = []
    poly = {"ico": IcosahedronPolytope, "cube3D": Cube3DPolytope, "cube4D": Cube4DPolytope}[kind]()
    for _ in range(L):
        poly.divide_edges()
    A = np.asarray(poly.get_half_of_hypercube(projection=True) if kind == "cube4D" else poly.get_nodes(projection=True),
                   dtype=float)
    fold = kind == "cube4D"
    n = len(A)
    if np.abs(np.linalg.norm(A, axis=1) - 1).max() > 1e-12:
        vs.append(viol(pre + "|norm", "rows not of unit norm", case))
    dmin = np.inf
    worst = None
    for N in range(2, n + 1):
        d = np.linalg.norm(A[:N - 1] - A[N - 1], axis=1)
        if fold:
            d = np.minimum(d, np.linalg.norm(A[:N - 1] + A[N - 1], axis=1))
        dmin = min(dmin, float(d.min()))
        bound = 0.6 / np.cbrt(N) if fold else 1 / np.sqrt(N)
        if dmin < bound and worst is None:
            worst = (N, dmin, bound)
    if worst:
        vs.append(viol(pre + f"|separation|N={worst[0]}", f"first {worst[0]} rows: minimum chord distance below the bound",
                       case, expected=worst[2], observed=worst[1]))
    if fold:
        # the half selection asked for every N on one polytope: must be the first N rows, for every N
        for N in range(1, n + 1):
            try:
                h = np.asarray(poly.get_half_of_hypercube(N=N, projection=True), dtype=float)
            except Exception as e:
                vs.append(viol(pre + f"|half_N|N={N}", f"get_half_of_hypercube(N={N}) raised {type(e).__name__}: {str(e)[:80]}", case))
                break
            if h.shape != (N, 4) or not np.array_equal(h, A[:N]):
                vs.append(viol(pre + f"|half_N|N={N}", f"get_half_of_hypercube(N={N}) is not the first {N} rows of the full selection",
                               case))
                break
    if fold and not all(canonical_half(q) for q in A):
        vs.append(viol(pre + "|hemisphere", "a row of the half selection is not canonical", case))
    return {"violations": vs, "N": n}


def cases(tier):
    out = []
    b3 = [11, 12, 13, 41, 42, 43, 161, 162, 163, 641, 642, 643]
    bc = [7, 8, 9, 25, 26, 27, 97, 98, 99, 385, 386, 387]
    if tier == "quick":
        N3 = sorted(set(list(range(1, 131)) + b3 + bc + [2560, 2561, 2562, 1536, 1537, 1538]))
        N4 = sorted(set(list(range(1, 41)) + [41, 42, 207]))        # randomQ row 206 has a tiny first coordinate
        fd = [8, 40]
        pref = [("ico", 3), ("cube3D", 3), ("cube4D", 2)]
    else:
        N3 = sorted(set(list(range(1, 401)) + b3 + bc + [2561, 2562, 1537, 1538] + list(range(400, 2563, 97))))
        N4 = list(range(1, 273))
        fd = [8, 40, 272]
        pref = [("ico", 4), ("cube3D", 4), ("cube4D", 2)]
    for alg in ("ico", "cube3D", "randomS"):
        for N in N3:
            if alg == "cube3D" and N > 1538:
                continue
            out.append({"alg": alg, "N": N, "dim": 3})
    for alg in ("cube4D", "randomQ"):
        for N in N4:
            out.append({"alg": alg, "N": N, "dim": 4})
    for N in fd:
        out.append({"alg": "fulldiv", "N": N, "dim": 4})
    for alg, dim in (("ico", 3), ("cube3D", 3), ("randomS", 3), ("cube4D", 4), ("randomQ", 4)):
        for N in (1, 2, 3, 5, 8, 13, 27, 40):
            out.append({"alg": alg, "N": N, "dim": dim, "timed": True})       # the timed-generation code path
    out.append({"alg": "fulldiv", "N": 40, "dim": 4, "timed": True})
    out.append({"alg": "zero4D", "N": 1, "dim": 4, "timed": True})
    for alg, dim in (("zero3D", 3), ("zero4D", 4)):
        for N in (2, 3, 4, 7):
            out.append({"kind": "zero", "alg": alg, "N": N, "dim": dim})
    for N in (1, 7, 9, 39, 41, 271):
        out.append({"kind": "fulldiv_bad", "N": N})
    out.append({"alg": "zero3D", "N": 1, "dim": 3})
    out.append({"alg": "zero4D", "N": 1, "dim": 4})
    for b, o in (("1", "1"), ("cube4D_1", "ico_1"), ("randomQ_1", "cube3D_1"), ("zero", "zero"), ("1", "randomS_1"),
                 ("fulldiv_1", "5")):
        out.append({"kind": "byname", "b": b, "o": o, "b_one": True, "o_one": o != "5"})
    for k, L in pref:
        out.append({"kind": "prefix", "poly": k, "level": L})
    return out


def run(ctx):
    rep = Report(PROPERTY, "exploration")
    cs = cases(ctx.tier)
    order = sorted(cs, key=lambda c: -(c.get("N", 5000) * (20 if c.get("dim") == 4 else 1)))
    res = ctx.pmap(run_case, order, chunksize=1, recheck=3)
    for r in res:
        rep.add_violations(r["violations"])
    rep.coverage = {
        "evaluations": len(cs) + sum(r["N"] for c, r in zip(order, res) if c.get("kind") == "prefix"),
        "distinct_nontrivial": sum(1 for c in cs if c.get("N", 0) >= 2) + sum(1 for c in cs if c.get("kind") == "prefix"),
        "rule": "SphereGridFactory.create for every N in the bound (3-D: 1..130 + every level boundary +-1 up to 643; "
                "4-D: 1..42; thorough 1..400 / 1..272) x all algorithms + fulldiv sizes + zero grids + N=1 by name; "
                "plus every prefix length of the level-3/4 (3-D) and level-2 (4-D) polytope node arrays; "
                "distinct_nontrivial = grids with N >= 2 and prefix sweeps",
        "samples": collect_samples([f"{c.get('alg', c.get('kind'))}_{c.get('N', '')}" for c in cs], 6),
        "exhaustive": True, "bound": {"N3": "1..130+boundaries" if ctx.tier == "quick" else "1..400+comb..2562",
                                      "N4": "1..42" if ctx.tier == "quick" else "1..272"},
    }
    rep.assumptions = ["distinct means chord distance > 1e-6", "separation bounds only for polytope algorithms"]
    return rep


def replay(case):
    return run_case(case)["violations"]

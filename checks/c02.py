"""C02 -- full-grid matrices are the symmetric product of position and rotation geometry.

Shape B: rotation grids x direction grids x radial grids x both position modes x factors.  This property is about
COMPOSITION: the package's own position-grid and rotation-grid getters are ground truth for the factors (their
correctness is C03-C06); the expected full matrices are built independently as Kronecker sums.
"""
from __future__ import annotations

import numpy as np

from mc.core import Report, viol, collect_samples
from mc.histories import explore_getter_orders

from molgri.space.fullgrid import FullGrid

PROPERTY = "C02"
RT = 1e-10


def close(a, b):
    return np.allclose(a, b, rtol=RT, atol=1e-14)


def run_case(case):
    b, o, t, cart, f = case["b"], case["o"], case["t"], case["cartesian"], case["f"]
    vs = []
    try:
        fg = FullGrid(b, o, t, factor=f, position_grid_cartesian=cart)
        pg = fg.get_position_grid()
        n_b, n_p = fg.get_b_N(), len(pg)
        pA = pg.get_adjacency_of_position_grid().toarray().astype(bool)
        pB = pg.get_borders_of_position_grid().toarray().astype(float)
        pD = pg.get_distances_of_position_grid().toarray().astype(float)
        pV = np.asarray(pg.get_all_position_volumes(), dtype=float)
        if n_b > 1:
            rA = fg.b_rotations.get_voronoi_adjacency().toarray().astype(bool)
            rB = fg.b_rotations.get_cell_borders().toarray().astype(float)
            rD = fg.b_rotations.get_center_distances().toarray().astype(float)
        else:
            rA = np.zeros((1, 1), dtype=bool)
            rB = rD = np.zeros((1, 1))
        rV = np.asarray(fg.b_rotations.get_spherical_voronoi().get_voronoi_volumes(), dtype=float)
        As, Bs, Ds = fg.get_full_adjacency().tocoo(), fg.get_full_borders().tocoo(), fg.get_full_distances().tocoo()
        V = np.asarray(fg.get_total_volumes(), dtype=float)
        arr = np.asarray(fg.get_full_grid_as_array(), dtype=float)
        pos = np.asarray(pg.get_position_grid_as_array(), dtype=float)
        quat = np.asarray(fg.b_rotations.get_grid_as_array(only_upper=True), dtype=float)
    except Exception as e:
        return {"violations": [viol(f"C02|b={b}|o={o}|t={t}|cart={cart}|f={f}|raises", f"full grid raised "
                                    f"{type(e).__name__}: {str(e)[:120]}", case, observed=type(e).__name__)], "n": 0}
    # the rotation factor itself must be the sign-minimised quaternion angle (independent of the package's folding)
    if n_b > 1:
        dots = np.clip(np.abs(quat @ quat.T), 0, 1)
        ang = np.arccos(dots)
        if np.abs(np.where(rA, rD - ang, 0)).max() > 1e-7:
            i, j = np.unravel_index(np.argmax(np.abs(np.where(rA, rD - ang, 0))), rD.shape)
            vs.append(viol(f"C02|b={b}|o={o}|t={t}|cart={cart}|f={f}|rotation_distance", f"rotation-grid distance of pair "
                           f"({i},{j}) is not arccos|q_i.q_j|", case, expected=float(ang[i, j]), observed=float(rD[i, j])))
    open_cells = bool(cart and np.any(pV <= 0))
    pre = (f"C02|open_cell|o={o}|" if open_cells else "C02|") + f"b={b}|o={o}|t={t}|cart={cart}|f={f}"
    n = n_b * n_p
    A, B, D = As.toarray().astype(bool), Bs.toarray().astype(float), Ds.toarray().astype(float)
    if A.shape != (n, n) or B.shape != (n, n) or D.shape != (n, n) or V.shape != (n,) or arr.shape != (n, 7):
        return {"violations": [viol(pre + "|shape", "wrong shapes", case, observed=[list(A.shape), list(V.shape)])], "n": n}
    Ib, Ip = np.eye(n_b), np.eye(n_p)
    XA = (np.kron(pA, Ib) + np.kron(Ip, rA)) > 0
    # symmetric, empty diagonal, positive finite
    for name, M in (("adjacency", A.astype(float)), ("borders", B), ("distances", D)):
        # mirror-image faces are computed separately: rounding noise of ~1e-16 absolute (5e-11 relative on a 1e-5 sliver)
        if not np.allclose(M, M.T, rtol=1e-9, atol=1e-12):
            bad = np.argwhere(~np.isclose(M, M.T, rtol=1e-9, atol=1e-12))
            i, j = bad[0].tolist()
            vs.append(viol(pre + f"|{name}|asymmetric", f"{name}: {len(bad)} asymmetric entries, first ({i},{j}) = cells "
                           f"(pos {i // n_b}, rot {i % n_b}) / (pos {j // n_b}, rot {j % n_b})", case,
                           observed=[float(M[i, j]), float(M[j, i])]))
        if np.any(np.diag(M) != 0):
            vs.append(viol(pre + f"|{name}|diagonal", f"{name} has a non-empty diagonal", case))
    for name, S in (("borders", Bs), ("distances", Ds)):
        if not (np.all(np.isfinite(S.data)) and np.all(S.data > 0)):
            vs.append(viol(pre + f"|{name}|positive", f"{name} has stored entries that are not strictly positive finite",
                           case, observed=float(np.min(S.data)) if len(S.data) else None))
    if not (np.array_equal(As.row, Bs.row) and np.array_equal(As.col, Bs.col) and np.array_equal(As.row, Ds.row)
            and np.array_equal(As.col, Ds.col)):
        vs.append(viol(pre + "|entry_order", "adjacency, borders and distances differ in stored (row, col) order "
                       f"(nnz {As.nnz}/{Bs.nnz}/{Ds.nnz})", case, observed=[int(As.nnz), int(Bs.nnz), int(Ds.nnz)]))
    if not np.array_equal(A, XA):
        bad = np.argwhere(A != XA)
        i, j = bad[0].tolist()
        vs.append(viol(pre + "|adjacency", f"{len(bad)} adjacency entries differ from (same rotation & adjacent positions) "
                       f"or (same position & adjacent rotations); first ({i},{j})", case, expected=bool(XA[i, j]),
                       observed=bool(A[i, j])))
    # values: factor on one family uniformly
    for name, M, pM, rM, power in (("borders", B, pB, rB, 2), ("distances", D, pD, rD, 1)):
        ff = f ** power
        cand1 = ff * np.kron(pM, Ib) + np.kron(Ip, rM)      # factor on the position family
        cand2 = np.kron(pM, Ib) + ff * np.kron(Ip, rM)      # factor on the rotation family
        if not (close(M, cand1) or close(M, cand2)):
            e1 = np.abs(M - cand1)
            i, j = np.unravel_index(np.argmax(e1), e1.shape)
            vs.append(viol(pre + f"|{name}|values", f"{name} entries are not the position/rotation quantities with f^{power} "
                           f"on one family; e.g. ({i},{j})", case, expected=float(cand1[i, j]), observed=float(M[i, j])))
    # other public routes to the same quantities: prefactors S/(h V_i) and the position-only / rotation-only adjacency
    try:
        Pm = fg.get_full_prefactors().toarray().astype(float)
        with np.errstate(divide="ignore", invalid="ignore"):
            XP = np.where(A, B / np.where(D != 0, D, 1.0) / np.where(V > 0, V, 1.0)[:, None], 0.0)
        if not open_cells and not close(Pm, XP):
            i, j = np.unravel_index(np.argmax(np.abs(Pm - XP)), Pm.shape)
            vs.append(viol(pre + "|prefactors", f"get_full_prefactors entry ({i},{j}) is not border/(distance*volume_i)", case,
                           expected=float(XP[i, j]), observed=float(Pm[i, j])))
        if n_p > 1:
            a_rot = np.asarray(fg.get_full_adjacency(only_position=True).toarray()) != 0      # same position, adjacent rotations
            a_pos = np.asarray(fg.get_full_adjacency(only_orientation=True).toarray()) != 0   # same rotation, adjacent positions
            if not (np.array_equal(a_rot, np.kron(Ip, rA) > 0) and np.array_equal(a_pos, np.kron(pA, Ib) > 0)):
                vs.append(viol(pre + "|partial_adjacency", "position-only / rotation-only adjacency matrices are not the two "
                               "families of the full adjacency", case))
    except Exception as e:
        vs.append(viol(pre + "|other_routes_raise", f"{type(e).__name__}: {str(e)[:100]}", case))
    XV = np.kron(pV, rV) * f ** 3
    if not close(V, XV):
        i = int(np.argmax(np.abs(V - XV)))
        vs.append(viol(pre + "|volumes", f"6D volume of cell {i} is not V_pos[{i // n_b}] * V_rot[{i % n_b}] * f^3", case,
                       expected=float(XV[i]), observed=float(V[i])))
    if not open_cells and not np.all(V > 0):
        vs.append(viol(pre + "|volumes_positive", "volumes must be positive", case))
    # order witness for the position volumes (the factor getters are otherwise taken as given): cells of one direction in
    # different shells are slabs of ONE cone, so their volumes are in the ratio of the R^3 differences of the shell
    # boundaries -- in both position modes -- whatever the direction; a permuted volume list breaks this
    radii = np.unique(np.round(np.linalg.norm(pos, axis=1), 9))
    n_t = len(radii)
    if n_t >= 2 and n_p % n_t == 0 and np.all(pV > 0):
        n_o = n_p // n_t
        Rb = np.concatenate([[0.0], (radii[:-1] + radii[1:]) / 2, [radii[-1] + (radii[-1] - radii[-2]) / 2]])
        w = np.diff(Rb ** 3)
        P = pV.reshape(n_t, n_o)
        ratio = P / P[0][None, :] / (w / w[0])[:, None]
        if np.abs(ratio - 1).max() > 1e-6:
            k_, o_ = np.unravel_index(int(np.argmax(np.abs(ratio - 1))), ratio.shape)
            vs.append(viol(pre + "|volume_order", f"position volumes are not listed in cell order: shell {int(k_)} / shell 0 of "
                           f"direction {int(o_)} is not the ratio of the shell-boundary cubes", case,
                           expected=float(w[k_] / w[0]), observed=float(P[k_, o_] / P[0, o_])))
    # cell order = rows of the grid array
    Xarr = np.concatenate([np.repeat(pos, n_b, axis=0), np.tile(quat, (n_p, 1))], axis=1)
    if not np.array_equal(arr, Xarr):
        i = int(np.argwhere(~np.all(arr == Xarr, axis=1))[0][0])
        vs.append(viol(pre + "|row_order", f"row {i} of the grid array is not (position {i // n_b}, rotation {i % n_b})",
                       case))
    return {"violations": vs, "n": n, "pairs": n * n, "open": open_cells}


FG_GETTERS = {
    "full_adjacency": lambda fg: fg.get_full_adjacency(), "full_borders": lambda fg: fg.get_full_borders(),
    "full_distances": lambda fg: fg.get_full_distances(), "prefactors": lambda fg: fg.get_full_prefactors(),
    "total_volumes": lambda fg: fg.get_total_volumes(),
    "pos_borders": lambda fg: fg.get_position_grid().get_borders_of_position_grid(),
    "pos_distances": lambda fg: fg.get_position_grid().get_distances_of_position_grid(),
    "pos_volumes": lambda fg: fg.get_position_grid().get_all_position_volumes(),
}
import itertools as _it
_CORE = ["full_adjacency", "full_borders", "full_distances", "prefactors"]
ORDER_WORDS = [list(w) for w in _it.product(FG_GETTERS, repeat=2)] + [list(w) for w in _it.product(_CORE, repeat=3)]


def order_case(case):
    """getter words on ONE FullGrid instance: all pairs over 8 getters, all triples over the 4 matrix getters"""
    b, o, t, cart, f = case["b"], case["o"], case["t"], case["cartesian"], case["f"]
    words = ORDER_WORDS[case["lo"]:case["hi"]]
    bad, nwords, calls = explore_getter_orders(lambda: FullGrid(b, o, t, factor=f, position_grid_cartesian=cart),
                                               FG_GETTERS, words=words)
    vs = []
    for w, pos, g, exp, obs in bad[:3]:
        vs.append(viol(f"C02|getter_order|b={b}|o={o}|t={t}|cart={cart}|word={'>'.join(w[:pos + 1])}", f"{g} after "
                       f"{w[:pos]} on the same FullGrid differs from the first call on a fresh object", dict(case, word=w),
                       exp, obs))
    return {"violations": vs, "n": 0, "words": nwords, "calls": calls}


def cases(tier):
    out = []
    if tier == "quick":
        bs = ["1", "cube4D_4", "cube4D_5", "cube4D_8", "cube4D_9", "randomQ_4", "randomQ_6"]
        os_ = ["1", "ico_2", "ico_3", "ico_4", "ico_5", "ico_7", "ico_12", "ico_13", "cube3D_4", "cube3D_9", "randomS_5",
               "randomS_8"]
        ts = ["[0.1,0.2]", "[0.1,0.25,0.3]", "linspace(0.2,0.4,4)"]
        fs = [1, 2, 0.5]
    else:
        bs = ["1"] + [f"cube4D_{n}" for n in (4, 5, 6, 7, 8, 9, 10, 12, 16, 20)] + [f"randomQ_{n}" for n in (4, 5, 6, 7, 9, 12)]
        os_ = ["1"] + [f"{a}_{n}" for a in ("ico", "cube3D", "randomS") for n in (2, 3, 4, 5, 6, 7, 8, 9, 12, 13, 20)]
        ts = ["[0.1,0.2]", "[0.1,0.25,0.3]", "linspace(0.2,0.4,4)"]
        fs = [1, 2, 0.5]
    for b in bs:
        for o in os_:
            for ti, t in enumerate(ts):
                for cart in (False, True):
                    if cart and o in ("1", "ico_2", "cube3D_2", "randomS_2"):
                        continue      # no 3-D Voronoi diagram exists (C19)
                    for fi, f in enumerate(fs):
                        if tier == "quick" and fi > 0 and (ti > 0):
                            continue  # factors other than 1 only with the first radial grid in the quick tier
                        if tier == "thorough" and fi > 0 and ti == 2:
                            continue
                        out.append({"b": b, "o": o, "t": t, "cartesian": cart, "f": f})
    # rotation grids known to contain sliver faces (tiny borders must stay on the common pattern)
    for b in ("randomQ_20", "randomQ_22") + (("randomQ_36", "randomQ_40") if tier == "thorough" else ()):
        for o, t, cart, f in (("1", "[0.1,0.2]", False, 1), ("ico_4", "[0.1,0.2]", False, 2), ("cube3D_6", "[0.2,0.3]", True, 0.5)):
            out.append({"b": b, "o": o, "t": t, "cartesian": cart, "f": f})
    # many position cells (past 256 and past 512: slab-wise / block-wise assembly of the position factor)
    for b, o, t, cart, f in (("cube4D_4", "ico_66", "linspace(0.2,0.4,4)", False, 1), ("1", "ico_130", "[0.1,0.25,0.3,0.5,0.6]", False, 2),
                             ("cube4D_5", "cube3D_90", "[0.1,0.2,0.3]", True, 1)):
        out.append({"b": b, "o": o, "t": t, "cartesian": cart, "f": f})
    return out


def run(ctx):
    rep = Report(PROPERTY, "exploration")
    cs = cases(ctx.tier)
    res = ctx.pmap(run_case, cs, chunksize=1, recheck=3)
    ocs = []
    for b, o, t, cart in (("cube4D_5", "ico_5", "[0.1,0.25,0.3]", False), ("randomQ_4", "cube3D_6", "[0.2,0.3]", True),
                          ("cube4D_6", "1", "0.3", False)):
        for lo in range(0, len(ORDER_WORDS), 8):
            ocs.append({"order": True, "b": b, "o": o, "t": t, "cartesian": cart, "f": 2, "lo": lo, "hi": lo + 8})
    ores = ctx.pmap(order_case, ocs, chunksize=1, recheck=1)
    for r in res + ores:
        rep.add_violations(r["violations"])
    rep.coverage = {
        "evaluations": sum(r.get("pairs", 0) for r in res),
        "distinct_nontrivial": sum(1 for c, r in zip(cs, res) if r["n"] >= 8),
        "rule": "rotation grids {1, cube4D, randomQ} x direction grids {1, ico, cube3D, randomS} x 3 radial grids x "
                "{shell, Cartesian} x factors {1, 2, 0.5}; every pair of cells compared with the Kronecker-sum composition "
                "of the package's own factor matrices; evaluations = ordered pairs; distinct_nontrivial = grids with >= 8 cells",
        "samples": collect_samples(cs, 5), "grids": len(cs), "exhaustive": True,
        "getter_order_words": sum(r["words"] for r in ores), "getter_order_calls": sum(r["calls"] for r in ores),
        "bound": {"n_b": "1,4..9" if ctx.tier == "quick" else "1,4..12,16,20", "n_o": "1..13" if ctx.tier == "quick" else "1..9,12,13,20"},
    }
    rep.assumptions = ["position-grid and rotation-grid getters are taken as ground truth for the factors (C03-C06)",
                       "either family may carry the factor f", "n_b in {2,3} is outside the statement"]
    return rep


def replay(case):
    if case.get("order"):
        return order_case(case)["violations"]
    return run_case(case)["violations"]

"""Known-findings lookup, VIOLATION / KNOWN-FINDING lines, replay artefacts."""
from __future__ import annotations

import hashlib
import json
import os
import subprocess

from .core import jdump

VERIF = os.path.dirname(os.path.dirname(os.path.abspath(__file__)))
KNOWN = os.path.join(VERIF, "known_findings.json")


def load_known():
    with open(KNOWN) as f:
        return json.load(f)


def match_open(known, property_id: str, key: str):
    for ent in known.get("open", []):
        if ent["property"] == property_id and key.startswith(ent["key_prefix"]):
            return ent
    return None


def repo_head(repo: str) -> str:
    try:
        return subprocess.run(["git", "-C", repo, "rev-parse", "HEAD"], capture_output=True, text=True,
                              timeout=20).stdout.strip()
    except Exception:
        return "unknown"


def write_replay(property_id: str, v: dict, repo: str) -> str:
    d = os.path.join(VERIF, "replays", property_id)
    os.makedirs(d, exist_ok=True)
    name = hashlib.sha1(v["key"].encode()).hexdigest()[:16] + ".json"
    path = os.path.join(d, name)
    rec = {"property": property_id, "key": v["key"], "what": v["what"], "case": v["case"],
           "expected": v.get("expected"), "observed": v.get("observed"), "repo_head": repo_head(repo)}
    with open(path, "w") as f:
        f.write(jdump(rec))
    return path


def classify(property_id: str, violations: list[dict]):
    """Split into (unlisted, {finding-entry-id: [violations]})."""
    known = load_known()
    unlisted, listed = [], {}
    seen = set()
    for v in sorted(violations, key=lambda x: (len(x["key"]), x["key"])):
        if v["key"] in seen:
            continue
        seen.add(v["key"])
        ent = match_open(known, property_id, v["key"])
        if ent is None:
            unlisted.append(v)
        else:
            listed.setdefault(ent["key_prefix"], (ent, []))[1].append(v)
    return unlisted, listed

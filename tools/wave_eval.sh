#!/bin/bash
# usage: SEEDDIR=/tmp/seed4 BASE=/tmp/scratch/verif_w4base tools/wave_eval.sh C01 C02 ...
# For both changes of each property: verdict of the frozen earlier /verif (FIRST) and of the current /verif (NOW).
cd /verif
for P in "$@"; do for k in 1 2; do
  [ -f $SEEDDIR/$P.out/patch$k.diff ] || { echo "##### $P $k MISSING"; continue; }
  echo "##### $P $k FIRST"; VERIF_DIR=$BASE tools/seed_eval.sh $P $k "" 2>&1 | grep -E "demo on|PATCH|check exit|HARNESS" | cut -c1-200
  echo "##### $P $k NOW"; tools/seed_eval.sh $P $k "" 2>&1 | grep -E "check exit|key=|HARNESS" | cut -c1-200 | head -4
done; done
echo ALLDONE

"""5-second self-test of the explorer: a toy system with a planted bug must be reported, a correct one must not."""
import os, sys
sys.path.insert(0, os.path.dirname(os.path.dirname(os.path.abspath(__file__))))
from mc.core import Ctx, viol
from mc import explorer


class Counter:
    """two counters; invariant a+b == number of events; the buggy variant drops an increment when a == 2 and b == 1"""
    def __init__(self, buggy):
        self.buggy = buggy
    def initial(self):
        return {"a": 0, "b": 0, "n": 0}
    def events(self, st):
        return ["a", "b"]
    def terminal(self, st):
        return False
    def canon(self, st):
        return repr(sorted(st.items()))
    def apply(self, st, ev):
        new = dict(st)
        new["n"] += 1
        if not (self.buggy and ev == "a" and st["a"] == 2 and st["b"] == 1):
            new[ev] += 1
        vs = []
        if new["a"] + new["b"] != new["n"]:
            vs.append(viol(f"toy|{new}", "lost update", {"st": st, "ev": ev}))
        return new, vs


def _raises_in_package(case):
    from molgri.space.translations import TranslationParser
    return TranslationParser("[0.1, -0.2]").get_trans_grid()       # the package's own assertion fires


def _raises_in_harness(case):
    return {}["missing"]


def exception_classes():
    """an exception leaving the package is a verdict (ImplementationRaised); one raised by the harness is a harness error"""
    from mc.core import ImplementationRaised, HarnessError
    ctx = Ctx("quick", 0, sys.stderr, workers=2)
    for serial in (True, False):
        try:
            ctx.pmap(_raises_in_package, [{"i": 0}, {"i": 1}], serial=serial, recheck=0)
            raise AssertionError("no exception")
        except ImplementationRaised as e:
            assert e.items[0]["impl_error"]["where"].startswith("molgri/space/translations.py:"), e.items
        try:
            ctx.pmap(_raises_in_harness, [{"i": 0}, {"i": 1}], serial=serial, recheck=0)
            raise AssertionError("no exception")
        except HarnessError:
            pass


def main():
    exception_classes()
    ctx = Ctx("quick", 0, sys.stderr, workers=2)
    good = explorer.bfs(ctx, Counter(False), depth=5)
    bad = explorer.bfs(ctx, Counter(True), depth=5)
    assert good["violations"] == [] and good["states"] == 21, good
    assert len(bad["violations"]) >= 1, bad
    print(f"selftest ok: good states={good['states']} transitions={good['transitions']}; planted bug found "
          f"({len(bad['violations'])} violation(s))")


if __name__ == "__main__":
    main()

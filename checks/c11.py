"""C11 -- frame assignment equals geometric membership in the grid cell.

Shape B: the continuous placement space is replaced by a finite deterministic lattice (generic rotations + the grid's own,
Fibonacci directions + the grid's own, distances straddling every shell boundary and the outer bound); every placement
of the product is assigned by the real AssignmentTool and compared with an independent nearest-shell / nearest-direction
/ nearest-rotation search.  Placements within a small margin of a cell boundary are counted as ambiguous and skipped.
"""
from __future__ import annotations

import shutil
import tempfile

import numpy as np
from MDAnalysis import Merge, Universe
from MDAnalysis.coordinates.memory import MemoryReader

from mc.core import Report, viol, collect_samples
from mc.molecules import write_xyz, file_coords, quat_to_matrix, generic_quaternions, fibonacci_directions, MOLECULES

from molgri.io import OneMoleculeReader
from molgri.molecules.transitions import AssignmentTool
from molgri.molecules.pts import Pseudotrajectory
from molgri.space.fullgrid import FullGrid

PROPERTY = "C11"
MARGIN = 1e-3


def build(case, d):
    fg = FullGrid(case["b"], case["o"], case["t"])
    arr = np.asarray(fg.get_full_grid_as_array(), dtype=float)
    G = np.asarray(fg.b_rotations.get_grid_as_array(only_upper=True), dtype=float)
    O = np.asarray(fg.get_position_grid().get_o_grid().get_grid_as_array(), dtype=float)
    r = np.asarray(fg.get_position_grid().get_radii(), dtype=float)
    p1, p2 = write_xyz(case.get("m1", "H2O"), d), write_xyz(case["mol"], d)
    u1 = OneMoleculeReader(p1).get_molecule()
    u2 = OneMoleculeReader(p2).get_molecule()
    return fg, arr, G, O, r, u1, u2, p2


def run_case(case):
    pre = f"C11|b={case['b']}|o={case['o']}|t={case['t']}|mol={case['mol']}|outliers={case['outliers']}|cart={case['cart']}" + \
          (f"|shift={case['shift']}" if case.get("shift") else "") + (f"|m1={case['m1']}" if case.get("m1") else "")
    d = tempfile.mkdtemp(prefix="verif_c11_")
    vs = []
    try:
        fg, arr, G, O, r, u1, u2, p2 = build(case, d)
        n_b, n_o, n_t = len(G), len(O), len(r)
        raw2 = file_coords(case["mol"])
        m2 = u2.atoms.masses.astype(float)
        ref2 = raw2 - (m2[:, None] * raw2).sum(0) / m2.sum()
        ref1 = np.asarray(u1.atoms.positions, dtype=float)
        if case.get("roundtrip"):
            pt = Pseudotrajectory(u1, u2, arr).get_pt_as_universe()
            ref_u = OneMoleculeReader(p2).get_molecule()
            try:
                got = np.asarray(AssignmentTool(arr, pt, ref_u, include_outliers=case["outliers"],
                                                cartesian_grid=case["cart"]).get_full_assignments(), dtype=float)
            except Exception as e:
                return {"violations": [viol(pre + "|roundtrip|raises", f"{type(e).__name__}: {str(e)[:120]}", case)],
                        "frames": 0, "ambiguous": 0}
            want = np.arange(len(arr), dtype=float)
            if got.shape != want.shape or not np.array_equal(got, want):
                bad = np.nonzero(got != want)[0] if got.shape == want.shape else [0]
                k = int(bad[0])
                vs.append(viol(pre + "|roundtrip", f"pseudotrajectory of the grid is not assigned back to 0,1,2,...: "
                               f"{len(bad)} frames differ, first frame {k}", case, expected=k,
                               observed=None if got.shape != want.shape else float(got[k])))
            return {"violations": vs, "frames": len(arr), "ambiguous": 0}
        # placement lattice
        quats = np.concatenate([generic_quaternions(case["n_rot"], stream=777 + case["n_rot"]), G])
        dirs = np.concatenate([fibonacci_directions(case["n_dir"]) @ quat_to_matrix(generic_quaternions(1, 5)[0]).T, O])
        R = np.concatenate([(r[:-1] + r[1:]) / 2, [r[-1] + (r[-1] - r[-2]) / 2]])
        dists = [0.5 * r[0], 1.02 * r[0], r[0] + 0.55 * (r[1] - r[0]), 1.01 * r[-1], R[-1] - 0.03, R[-1] + 0.03, 1.6 * r[-1]]
        if n_t > 2:
            dists.append(r[1] + 0.45 * (r[2] - r[1]))
        for k_ in range(n_t - 1):          # just below and just above every interior shell boundary
            step_ = r[k_ + 1] - r[k_]
            dists += [R[k_] - 0.03 * step_, R[k_] + 0.03 * step_]
        frames, truth = [], []
        amb = 0
        for q in quats:
            Rm = quat_to_matrix(q)
            dots = np.abs(G @ (q / np.linalg.norm(q)))
            bs = np.argsort(-dots)
            b_amb = n_b > 1 and dots[bs[0]] - dots[bs[1]] < MARGIN
            body = ref2 @ Rm.T
            for u in dirs:
                cs_ = O @ u
                os_ = np.argsort(-cs_)
                o_amb = n_o > 1 and cs_[os_[0]] - cs_[os_[1]] < MARGIN
                for dist in dists:
                    t_amb = np.any(np.abs(dist - R) < MARGIN * 10)
                    if b_amb or o_amb or t_amb:
                        amb += 1
                        continue
                    t = int(np.argmin(np.abs(r - dist)))
                    if dist > R[-1] and not case["outliers"]:
                        want = np.nan
                    else:
                        want = (t * n_o + int(os_[0])) * n_b + int(bs[0])
                    frames.append(np.concatenate([ref1, body + dist * u]))
                    truth.append(want)
        frames = np.array(frames, dtype=np.float64)
        if case.get("shift"):      # the whole system rigidly translated: relative placement (and so the cell) is unchanged
            frames = frames + np.array(case["shift"], dtype=float)
        frames = frames.astype(np.float32)
        truth = np.array(truth, dtype=float)
        merged = Merge(u1.atoms, u2.atoms)
        U = Universe(merged._topology, frames, format=MemoryReader)
        ref_u = OneMoleculeReader(p2).get_molecule()
        try:
            got = np.asarray(AssignmentTool(arr, U, ref_u, include_outliers=case["outliers"],
                                            cartesian_grid=case["cart"]).get_full_assignments(), dtype=float)
        except Exception as e:
            return {"violations": [viol(pre + "|raises", f"{type(e).__name__}: {str(e)[:120]}", case)], "frames": 0,
                    "ambiguous": amb}
        if got.shape != truth.shape:
            return {"violations": [viol(pre + "|length", "one assignment per frame expected", case,
                                        expected=list(truth.shape), observed=list(got.shape))], "frames": 0, "ambiguous": amb}
        same = (got == truth) | (np.isnan(got) & np.isnan(truth))
        if not same.all():
            bad = np.nonzero(~same)[0]
            k = int(bad[0])
            # classify the first mismatch
            g, w = got[k], truth[k]
            if np.isnan(g) != np.isnan(w):
                kind = "outlier_bound"
            else:
                gt, go, gb = int(g) // (n_o * n_b), (int(g) // n_b) % n_o, int(g) % n_b
                wt, wo, wb = int(w) // (n_o * n_b), (int(w) // n_b) % n_o, int(w) % n_b
                kind = "shell" if gt != wt else ("direction" if go != wo else "rotation")
            vs.append(viol(pre + f"|{kind}", f"{len(bad)} of {len(truth)} placements assigned to a different cell than the "
                           f"geometric one; first mismatch [{kind}] placement {k}", case,
                           expected=None if np.isnan(w) else float(w), observed=None if np.isnan(g) else float(g)))
        return {"violations": vs, "frames": int(len(truth)), "ambiguous": amb,
                "nan_expected": int(np.isnan(truth).sum())}
    finally:
        shutil.rmtree(d, ignore_errors=True)


def cases(tier):
    grids = [("8", "12", "[0.2, 0.3, 0.4]"), ("randomQ_7", "cube3D_9", "[0.15, 0.3, 0.35]"), ("cube4D_17", "ico_5", "[0.3, 0.5]")]
    mols = ["H2O", "glucose", "CHFClBr"]
    grids.append(("cube4D_40", "ico_4", "[0.3, 0.6, 0.9]"))      # more than 32 rotations; radii not in "hash order"
    if tier == "thorough":
        grids += [("cube4D_40", "ico_20", "[0.2, 0.3, 0.4, 0.6]"), ("randomQ_12", "randomS_15", "[0.25, 0.5]"),
                  ("1", "ico_42", "[0.2, 0.3]")]
        mols += ["NH3x"]
    n_rot, n_dir = (14, 9) if tier == "quick" else (60, 24)
    out = []
    i = 0
    for b, o, t in grids:
        for mol in mols:
            if mol == "NH3x":
                continue
            for outliers in (False, True):
                cart = (i % 2 == 0)
                i += 1
                out.append({"b": b, "o": o, "t": t, "mol": mol, "outliers": outliers, "cart": cart, "n_rot": n_rot,
                            "n_dir": n_dir})
                if mol == "CHFClBr" and outliers:
                    out.append({"b": b, "o": o, "t": t, "mol": "CHFClBr_mirror", "outliers": outliers, "cart": cart,
                                "n_rot": n_rot, "n_dir": 4})
                if mol == "CHFClBr" and not outliers:
                    out.append({"b": b, "o": o, "t": t, "mol": mol, "outliers": outliers, "cart": not cart, "n_rot": 6,
                                "n_dir": 5, "shift": [3.0, -2.0, 5.0]})
        for mol in mols[:2] if tier == "quick" else mols[:3]:
            out.append({"b": b, "o": o, "t": t, "mol": mol, "outliers": False, "cart": True, "roundtrip": True,
                        "n_rot": 0, "n_dir": 0})
    # first molecule read from a .gro file (carries a 3 nm periodic box) and placements beyond half that box: cells are
    # defined by the actual relative placement, not by a periodic image
    far = ("8", "12", "[1.0, 1.5, 2.0]")
    out.append({"b": far[0], "o": far[1], "t": far[2], "mol": "H2O", "m1": "H2O@gro", "outliers": False, "cart": True,
                "roundtrip": True, "n_rot": 0, "n_dir": 0})
    out.append({"b": far[0], "o": far[1], "t": far[2], "mol": "CHFClBr@gro", "m1": "H2O@gro", "outliers": True, "cart": False,
                "n_rot": 5, "n_dir": 5})
    # a molecule whose principal axes are defined by its masses only
    for outliers, cart in ((False, True), (True, False)):
        out.append({"b": "cube4D_17", "o": "ico_5", "t": "[0.3, 0.5]", "mol": "CX4_ideal", "outliers": outliers, "cart": cart,
                    "n_rot": n_rot, "n_dir": 5})
    out.append({"b": "8", "o": "12", "t": "[0.2, 0.3, 0.4]", "mol": "CX4_ideal", "outliers": False, "cart": True, "roundtrip": True,
                "n_rot": 0, "n_dir": 0})
    return out


def run(ctx):
    rep = Report(PROPERTY, "exploration")
    cs = cases(ctx.tier)
    res = ctx.pmap(run_case, cs, chunksize=1, recheck=1)
    for r in res:
        rep.add_violations(r["violations"])
    frames = sum(r["frames"] for r in res)
    amb = sum(r["ambiguous"] for r in res)
    rep.coverage = {
        "evaluations": frames, "distinct_nontrivial": len(cs),
        "rule": "grids x molecules {H2O, glucose, CHFClBr} x include_outliers x metric flag; placement lattice = (generic "
                "quaternions + grid rotations) x (rotated Fibonacci directions + grid directions) x distances straddling "
                "every shell boundary and the outer bound; every placement assigned and compared with the nearest "
                "shell/direction/rotation; plus the round trip of each grid's own pseudotrajectory",
        "samples": collect_samples([{k: c[k] for k in ("b", "o", "t", "mol", "outliers")} for c in cs], 4),
        "ambiguous_skipped": amb, "ambiguous_fraction": amb / max(1, amb + frames),
        "placements_expected_nan": sum(r.get("nan_expected", 0) for r in res),
        "exhaustive": True, "bound": {"grids": 3 if ctx.tier == "quick" else 6},
    }
    rep.assumptions = ["placements closer than 1e-3 (cos/dot) or 1e-2 Angstrom to a cell boundary are excluded (answer not "
                       "unique)", "finite lattice stands in for the continuous placement space"]
    return rep


def replay(case):
    return run_case(case)["violations"]

"""Explicit-state breadth-first exploration of operation histories on the *real* implementation.

A `System` (supplied by the check) offers

    initial()                 -> state                (fresh real objects + reference model)
    events(state)             -> [event, ...]         (finite alphabet, JSON values, simplest first)
    apply(state, event)       -> (state', [violation])  (runs the real code and the model in lock-step; must not
                                                          mutate `state` -- or set MUTATING=True to be rebuilt per event)
    canon(state)              -> str                  (hash of the *implementation* state; equal canon => equal futures)
    terminal(state)           -> bool

A state is identified with the history that reaches it.  Live objects are never copied between processes:
a worker receives a history, **replays it on fresh objects** (checking that it reaches the recorded canon --
a divergence is a harness error: nondeterminism not owned), then fires every enabled event once.
"""
from __future__ import annotations

from .core import HarnessError, collect_samples

_SYSTEM = None  # set in the parent before forking


def _expand(item):
    hist, expected_canon = item["history"], item["canon"]
    sysm = _SYSTEM
    quiet = getattr(sysm, "apply_quiet", sysm.apply)
    st = sysm.initial()
    for ev in hist:
        st, _ = quiet(st, ev)
    got = sysm.canon(st)
    if expected_canon is not None and got != expected_canon:
        return {"diverged": True, "history": hist, "expected": expected_canon, "got": got}
    out = []
    for ev in sysm.events(st):
        if getattr(sysm, "MUTATING", False):
            st2 = sysm.initial()
            for e in hist:
                st2, _ = quiet(st2, e)
        else:
            st2 = st
        nst, vs = sysm.apply(st2, ev)
        out.append({"event": ev, "canon": sysm.canon(nst), "violations": vs, "terminal": bool(sysm.terminal(nst)),
                    "obs": sysm.observe(nst) if hasattr(sysm, "observe") else None})
    return {"diverged": False, "succ": out}


def bfs(ctx, system, depth: int, max_states: int | None = None, isolate: bool = False):
    """Returns dict(states, transitions, max_depth, violations, capped, samples, distinct_observations)."""
    global _SYSTEM
    _SYSTEM = system
    init = system.initial()
    c0 = system.canon(init)
    seen = {c0: []}
    frontier = [{"history": [], "canon": c0}]
    transitions = 0
    violations = []
    observations = set()
    capped = False
    level = 0
    sample_hist = []
    while frontier and level < depth:
        from .core import Isolated
        results = ctx.pmap(Isolated(_expand) if isolate else _expand, frontier, chunksize=max(1, len(frontier) // (ctx.workers * 8) or 1),
                           recheck=min(4, len(frontier)))
        nxt = []
        for item, res in zip(frontier, results):
            if res["diverged"]:
                raise HarnessError(f"replay divergence for history {item['history']}: {res['expected']} != {res['got']}")
            for s in res["succ"]:
                transitions += 1
                h2 = item["history"] + [s["event"]]
                for v in s["violations"]:
                    violations.append(v)
                if s["obs"] is not None:
                    observations.add(str(s["obs"]))
                if s["canon"] not in seen:
                    if max_states is not None and len(seen) >= max_states:
                        capped = True
                        continue
                    seen[s["canon"]] = h2
                    if len(sample_hist) < 400:
                        sample_hist.append(h2)
                    if not s["terminal"]:
                        nxt.append({"history": h2, "canon": s["canon"]})
        frontier = nxt
        level += 1
    return {"states": len(seen), "transitions": transitions, "max_depth": level, "violations": violations,
            "capped": capped, "samples": collect_samples(sample_hist, 5), "unexpanded_frontier": len(frontier),
            "distinct_observations": len(observations)}

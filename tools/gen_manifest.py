#!/usr/bin/env python3
"""Regenerates /verif/MANIFEST.json from the table below (keeps it schema-valid at all times)."""
import json, os, subprocess, sys
VERIF = os.path.dirname(os.path.dirname(os.path.abspath(__file__)))
PY = "/venv/bin/python"

CHECKS = {
 "C13": dict(category="model_checking", design="DESIGN.md §5 C13",
   technique="explicit-state BFS over merge/delete histories on the real functions, lock-step lumping model; exhaustive deletion sets n<=12",
   text="Every merge/delete history up to depth 3 over the full subset alphabet on 4-cell matrices (depth 2 on 5 cells), all 2^n-2 deletion sets and all single-group merges for n=9..12, and the cut_and_merge limit/energy menu are executed on the real code (dense and csr in lock-step) and compared exactly with a union-find lumping model; histories are the quantifier of the property, so a bounded-exhaustive history exploration is the right level. Added: power-of-two scaled base matrices (2^-34, 2^-60, 2^27) so that absolute-tolerance shortcuts show while arithmetic stays exact. Later rounds added: delete([]) as an event, cut_and_merge on a base whose rows do not sum to zero, 24- and 40-cell matrices with 8-step structured histories.",
   note="Trusted: the 60-line union-find/lumping model in checks/c13.py; integer base matrices (exact arithmetic). Bound: n<=6 for deep histories, n<=12 for depth 1-2."),

 "C12": dict(category="model_checking", design="DESIGN.md §5 C12",
   technique="explicit-state BFS over all trajectories (append-one-symbol events) with counting model and incremental window conformance",
   text="Every assigned trajectory over {0,1,2,NaN} up to length 6 (thorough 8; second alphabet with 4-5 cells) is a state; in every state the real MSM matrix for every tau in 1..4 (also tau > length), both window modes and two cell counts is compared entry-for-entry with the counting model, and the real window generators are compared incrementally with the parent state. Off-by-one and NaN-handling errors live at trajectory ends, which is exactly what all short sequences cover. Added: query pairs/triples on ONE MSM instance, and the multi-tau getter with ascending, descending and mixed tau orders in both modes. Later rounds added: trajectories of 65 537 and 100 003 frames against a vectorised counting model, truthy/falsy non-bool mode flags, integer-dtype trajectories. Short trajectories relabelled onto the highest cell indices of grids with 46 341 to 3 000 000 cells are compared sparsely with the same counting model.",
   note="Trusted: 30-line counting model transcribed from the statement. Bound: length <= 6/8, <= 5 symbols."),
 "C01": dict(category="exploration", design="DESIGN.md §5 C01",
   technique="exhaustive enumeration of sparsity patterns x energy alphabet x storage forms against a dense-loop oracle",
   text="All symmetric sparsity patterns on 2..5 nodes x all energy vectors over a 5-letter alphabet that straddles the 500 kJ/mol cap x csr/coo storage pairs x temperatures are built with the real SQRA.get_rate_matrix and compared with the formula entry by entry, plus row sums, detailed balance per pair, shift invariance and linearity in D. Added after seeded changes: all (D,T) call words of length 3 on ONE SQRA instance (state must not leak between calls), wide energy spans (4800 / -2500 kJ/mol) at 100-1000 K, integer-dtype volumes and energies. Later rounds added: temperatures 60-2000 K with differences just below the cap, larger structured patterns (ring, star, lattice, components with 40-60 cells).",
   note="Trusted: the dense double-loop oracle; fixed prime-based S, h, V tables. Real-valued inputs are represented by a structured finite alphabet only."),
 "C16": dict(category="exploration", design="DESIGN.md §5 C16",
   technique="exhaustive enumeration of the radial-grid input grammar against an exact-rational oracle",
   text="Every string of the stated grammar (lists/tuples of up to 3-4 decimals in every order with whitespace variants, linspace and range/arange parameterisations, lists with a negative entry) is parsed by the real TranslationParser and compared with intended values computed in fractions.Fraction; increments, shell boundaries, interleaving and identifier consistency are checked on every result. Added: range/arange on a grid of tenths with 1-3 arguments, tiny negatives (-1e-12 ... -1e-8) in every syntax. Later rounds added: alternative spellings of decimals, descending linspace / negative-step range (this exposed and led to fix F15), all 4- and 5-subsets of the tenths, list twins spelled with repr() of generated floats (identifier).",
   note="Trusted: Fraction arithmetic oracle. Bound: decimals from an 8-value menu, list length <= 4."),
 "C17": dict(category="exploration", design="DESIGN.md §5 C17",
   technique="exhaustive enumeration of the grid-name token language (<=3/4 tokens, both roles) against stated constraints",
   text="Every underscore-joined name of up to 3 (thorough 4) tokens over a 22-token alphabet is parsed for both roles; only the constraints in the statement are asserted (ValueError or valid algorithm_N, N=1 iff zero algorithm, default algorithm, ambiguity rejected, fixed point, constructible). Later rounds added: tokens 8 and 40, fulldiv may raise ValueError only for non-admissible sizes.",
   note="Trusted: constraint predicates in checks/c17.py. Dimension-tag tokens are excluded as the statement leaves them open."),
 "C19": dict(category="exploration", design="DESIGN.md §5 C19",
   technique="exhaustive enumeration of the small-size configuration box x getters, outcome classification",
   text="The full box n_b x n_o in 1..5 (thorough 1..8 and all algorithms) x 1-3 radii x both position modes is constructed and all five getters are called; each outcome must be an array of the right shape or ValueError (QhullError only in Cartesian mode with <3 directions). Added: every getter is called twice on one object in forward-then-reverse order and, on a second object, reverse-then-forward. Later rounds added: fulldiv names in the box.",
   note="Trusted: outcome classification only (values are the subject of C02-C06)."),

 "C03": dict(category="exploration", design="DESIGN.md §3 O-S2, §5 C03",
   technique="exhaustive enumeration over every N and every pair against an independent arc-clipping spherical Voronoi oracle",
   text="For ico, cube3D and randomS and EVERY N in 4..130 (thorough 4..330 plus level boundaries up to 1000) every pair (i,j) of the real grid's adjacency, border and distance matrices and every cell area is compared with a Qhull-free oracle that clips bisector great circles; symmetry, diagonal, common pattern, entry order and the 4 pi sum are checked on every grid. Added: all getter words of length <= 3 (exact/approx areas, adjacency, borders, distances) on one grid object, compared bitwise with the first call on a fresh object. Later rounds added: the grid-level getter grid.get_voronoi_volumes() read next to the Voronoi object's areas. Histories of several grids built in ONE fresh process (every ordered pair of algorithms at equal N, the same grid again after another one; DESIGN 9.12) are judged by the same oracle, so state carried between objects is detected.",
   note="Trusted: mc/oracles/s2.py (closed-form arc intersection, Van Oosterom-Strackee areas). Tolerance 1e-7."),
 "C04": dict(category="exploration", design="DESIGN.md §3 O-S3, §5 C04",
   technique="exhaustive enumeration over every N and every pair against a gnomonic polygon-clipping S^3 Voronoi oracle folded over sign",
   text="For cube4D and randomQ and EVERY N in 4..40 (thorough 4..80, 100, 150, 272) every pair of rotations incl. index 0 and pairs adjacent only through the antipode is compared with Voronoi faces of {+-q} computed by planar Sutherland-Hodgman clipping in gnomonic projection (independent of Qhull); symmetry, diagonal, common pattern, distances and single-face borders are checked. Added: getter-order words of length <= 3 on one rotation-grid object. Histories of several grids built in ONE fresh process (every ordered pair of algorithms at equal N, the same grid again after another one; DESIGN 9.12) are judged by the same oracle, so state carried between objects is detected.",
   note="Trusted: mc/oracles/s3.py. Border tolerance 1e-6 (measured 3e-9 after fix F14); borders of two-face pairs are not compared (left open by the statement)."),
 "C05": dict(category="exploration", design="DESIGN.md §5 C05",
   technique="exhaustive enumeration of direction grids x radial grids, every cell and pair against closed forms on the O-S2 oracle",
   text="3 algorithms x every N in 4..45, 63, 64 (thorough every N 4..64 with 13 radial grids) x 8 radial grids with unequal increments, unsorted input and every syntax: every cell volume and every ordered pair's adjacency/border/distance is compared with the closed forms of the statement built on the independent spherical Voronoi oracle, plus the three sum rules. Added: all getter words of length <= 3 on one PositionGrid; two-argument range() radial input. Later rounds added: 8-12 shells, N = 98/162, nearly coincident and very different radii. Histories of several grids built in ONE fresh process (DESIGN 9.12) are judged by the same oracle, so state carried between objects is detected.",
   note="Trusted: O-S2 and 40 lines of closed forms; radii of the oracle come from exact rationals. Tolerance 1e-7 relative."),
 "C06": dict(category="exploration", design="DESIGN.md §3 O-E3, §5 C06",
   technique="exhaustive enumeration over every N x radial grids against a Qhull-free cone/slab closed form of the Euclidean Voronoi cells (Qhull ridge areas as oracle self-check)",
   text="3 algorithms x every N in 4..45 plus 48..55, 80, 92, 98, 100, 162 (thorough every N to 100) x radial grids incl. the shipped 10-shell default in Cartesian mode: every cell volume, every adjacent pair's planar face area and Euclidean distance is compared with the exact cone-over-spherical-cell closed form; positivity, symmetry, pattern and entry order are checked. Open-cell grids (F6) are reported as known findings. Added: all getter words of length <= 3 on one Cartesian PositionGrid. Later rounds added: the FullGrid-level route (n_b=1, f=1) to the Cartesian matrices, nearly coincident radii, and an own key for any value other than the documented 0.0 reported for an unbounded cell (so the listed finding F6 only matches its exact signature). Histories of several grids built in ONE fresh process (every ordered pair of algorithms at equal N, the same grid again after another one; DESIGN 9.12) are judged by the same oracle, so state carried between objects is detected.",
   note="Trusted: cone/slab argument (DESIGN O-E3) + O-S2; cross-checked against convex-hull areas of scipy Voronoi ridges on one radial grid per (alg, N). Tolerance 1e-6 relative."),
 "C15": dict(category="exploration", design="DESIGN.md §3 O-MC, §5 C15",
   technique="exhaustive enumeration over every N and every cell against the Monte-Carlo nearest-rotation measure prescribed by the property",
   text="cube4D and randomQ x every N in 1..40 (thorough 1..80, 100, 272): every cell volume is compared with the measure of its nearest-rotation region estimated from 400000 uniform points on S^3 (private PCG64 stream), plus positivity, first-N-of-2N, the 12 % sum band and the equal-share rule for N<4. The exploration over N and cells is exhaustive; only the oracle is statistical, as the property defines it. Later rounds added: N = 113 (quick) and 150, 420 (thorough), the grid-level getter. Histories of several grids built in ONE fresh process (every ordered pair of algorithms at equal N, the same grid again after another one; DESIGN 9.12) are judged by the same oracle, so state carried between objects is detected.",
   note="A cell is flagged only beyond 30 % + 5 standard errors, so oracle noise cannot raise an alarm. F10 (randomQ_5 cell 4) is a listed finding."),
 "C02": dict(category="exploration", design="DESIGN.md §5 C02",
   technique="exhaustive enumeration of grid combinations; every pair of cells against an independent Kronecker-sum composition of the factor matrices",
   text="7 rotation grids x 12 direction grids x 3 radial grids x both modes x factors {1,2,0.5} (thorough: n_b up to 20, n_o up to 20): all three full matrices are compared entry by entry with kron(position, I) + kron(I, rotation) built from the package's own factor getters, with f / f^2 on either family; symmetry, diagonal, positivity, stored entry order, volumes and row order of the grid array are checked. Added: all pairs of 8 getters and all triples of the 4 matrix getters on ONE FullGrid (every observation bitwise equal to the first call on a fresh object), an independent arccos|q.q| check of the rotation factor, rotation grids with sliver faces. Later rounds added: get_full_prefactors values, position-only / rotation-only adjacency, a single-position grid in the getter-order histories.",
   note="The factor matrices themselves are verified by C03-C06; this check is about composition only. Symmetry is asserted to 1e-12 relative (mirror-image faces are computed separately)."),

 "C07": dict(category="exploration", design="DESIGN.md §5 C07",
   technique="exhaustive enumeration over every N per algorithm plus every prefix length of the polytope node arrays",
   text="Every N in 1..130 plus every subdivision-level boundary +-1 up to 643 (thorough: every N to 400, comb to 2562) for ico/cube3D/randomS, every N in 1..42 (thorough 1..272) for cube4D/randomQ, fulldiv sizes, zero grids and N=1 by name are built through the factory and checked for shape, unit norm, pairwise (sign-folded) distinctness, separation bounds, canonical hemisphere and the exact [G; -G] layout; all prefixes of the level-3/4 and 4-D level-2 node arrays are swept incrementally. Added: the time_generation=True code path for every algorithm, and zero grids requested directly with N != 1 (lenient contract: ValueError, or 1 or N distinct unit rows). Later rounds added: top-of-range N (2560-2562, 1536-1538), randomQ_207, non-admissible fulldiv sizes must raise ValueError.",
   note="Trusted: direct predicates. Separation bounds only for polytope algorithms."),
 "C08": dict(category="model_checking", design="DESIGN.md §2.1, §5 C08",
   technique="explicit-state BFS over create/get/reseed/draw/divide histories on live grid objects; bitwise comparison with a reference table from fresh subprocesses",
   text="All histories up to depth 2 (thorough 3) over an alphabet of 8 grid specs x 6 getters + global-RNG reseed/draw + further subdivision are executed on live objects; states are digests of every mutable object field plus numpy's global RNG state; every observation must equal, bit for bit, the first call on a fresh object in a fresh process (table built in subprocesses under three PYTHONHASHSEED values). Long getter-order histories per spec and the prefix claim for every N <= Nmax are added. Added: every case runs in its own forked child (process-global state is the subject), the approx-volume getter, FullGrid-level specs in shell and Cartesian mode with the same sub-grids, and cross-object histories (build A, build B, read B then A) with RNG events in between. Later rounds added: grids from deeper subdivision levels compared across four PYTHONHASHSEED values, a prefactors getter, a single-position FullGrid and a Cartesian grid with unbounded cells among the specs.",
   note="Trusted: sha256 of raw bytes. The initial RNG state is fixed by the harness and then varied by events. Bound: depth 2/3, N <= 64/200 (3-D) and 24/80 (4-D) for prefixes."),
 "C09": dict(category="exploration", design="DESIGN.md §5 C09",
   technique="exhaustive enumeration of grid combinations; every row and every small index subset against an independent row formula",
   text="6 rotation x 6 direction x 4 radial grids (thorough wider): every row equals radius[t]*direction[o] ++ rotation[n mod n_b] built from separately constructed grids and exact-rational radii; index helpers are checked for None, every single index, every ordered pair (n<=40), prefixes, suffixes and strided slices; the decomposition returns the generating grids in order. Added: a 68040-row grid crossing 2^15 position cells and 2^16 rows (index dtype), repeated calls and input-preservation of the decomposition. Later rounds added: boolean masks, negative indices and python lists as index subsets, nearly coincident shells, a float-step range() radial text.",
   note="Trusted: divmod formula in checks/c09.py."),
 "C10": dict(category="model_checking", design="DESIGN.md §5 C10",
   technique="exhaustive frame-by-frame comparison with an independent rigid-motion oracle, plus per-frame differential replay from the initial state",
   text="5 (thorough 7) second molecules incl. single atom, planar and asymmetric ones x 2 first molecules x real grids and non-grid arrays (12 positions x (24 cube rotations + 30 generic quaternions)): every frame and atom equals R(q_k)(ref - com) + pos_k with an own scalar-last quaternion formula; since the generator mutates one live molecule, every 7th frame (all for small arrays) is re-derived from the initial state by a single-row pseudotrajectory and must agree. Added: a special-quaternion array (rotations of 0.01-1 degree, ~pi, -q, un-normalised), arrays whose quaternions repeat non-periodically (orientation-slow, shuffled, repeats), frames kept from generate_pseudotrajectory() and inspected after exhaustion (aliasing), and all call words <= 3 over write_structure / pt_universe / write_full_pt on the package's PtWriter incl. the files written. Later rounds added: a 17100-row array, PtWriter directory mode (files not zero padded), one-molecule views incl. in-place modification of the returned universe.",
   note="Trusted: quaternion formula in mc/molecules.py; tolerance 5e-5 Angstrom (float32 coordinates; measured deviation 5e-7)."),
 "C11": dict(category="exploration", design="DESIGN.md §5 C11",
   technique="exhaustive enumeration of a finite placement lattice against an independent nearest-cell search with ambiguity margin",
   text="3 grids (thorough 6) x 3 molecules x include_outliers x metric flag: every placement of (generic + grid rotations) x (rotated Fibonacci + grid directions) x distances straddling every shell boundary and the outer bound is assigned by the real AssignmentTool and compared with nearest shell / direction / rotation; the grid's own pseudotrajectory must be assigned to 0,1,2,... Added: the whole system rigidly translated (first molecule away from the origin) must give the same cells. Later rounds added: the mirror-image molecule, distances just inside/outside every interior shell boundary.",
   note="The continuous placement space is represented by a finite lattice; placements within 1e-3 of a boundary are skipped (counted)."),
 "C14": dict(category="exploration", design="DESIGN.md §5 C14",
   technique="exhaustive enumeration of grid/energy/temperature/solver configurations end to end through the file system, ARPACK start vector enumerated via the eigs seam",
   text="160 grid configurations (thorough ~580) are written with GridWriter, read with GridReader and turned into rate matrices for 2 landscapes x 2 temperatures: detailed balance w.r.t. V exp(-E/RT) for every pair and pattern = saved adjacency; for a quarter (thorough: all) the decomposition is run for 4 solver settings x k in {6,12} x 3 start vectors and compared with a dense eigen-solver (order, values, zero, stationary vector). Added: solver tolerance enumerated (1e-10 and the workflow default 1e-5; F11 is reproduced and listed), a negative shift inside the spectrum (k nearest eigenvalues), energies with a huge common offset (-4e5 and +3700 kJ/mol). Later rounds added: T = 180 K with a deep-well landscape, metastable two-basin landscapes (barrier scan, six start vectors; order and values only when the gap is below 1e-7*||Q||), integer energies, rotation grids with sliver faces.",
   note="ARPACK non-convergence (an explicit solver exception) is counted, not judged. Start vectors are enumerated over 3 values only."),
 "C18": dict(category="model_checking", design="DESIGN.md §5 C18",
   technique="exhaustive enumeration of subdivision/getter histories on real polytopes; state-wise set equality with independently generated ideal lattices",
   text="Every word over {divide, get} with at most L divisions (ico 4, cube3D 4, cube4D 2; thorough ico 5) is run on a fresh polytope; after every step the node set equals the ideal lattice (KD-tree, 1e-9, multiplicity 1), projections, negation closure, index range, level order, index permanence across the history, getter/cache consistency and the half-hypercube selection are checked. Added: read-only adjacency/antipode queries as a third event (node attributes must stay untouched). Later rounds added: plotting helpers (get_N_element_graph, get_all_cells, get_cdist_matrix) inside the read-only query event.",
   note="Trusted: lattice generators in checks/c18.py. cube4D level 3 is outside the bound."),
 "C20": dict(category="exploration", design="DESIGN.md §5 C20",
   technique="exhaustive enumeration of small grids and of the xvg header/legend/row family; byte-exact round-trip comparison",
   text="Every constructible grid of the n_b x n_o box x 3 radial grids x both modes plus 6 mid-size grids is written and read back and compared byte for byte (dtype, shape, sparse format, stored entry order) with a separately built in-memory grid; 1260 xvg files (every '#'-count 0..13 x header length x 1..10 legends x row counts) are parsed and compared with the text, incl. single-column getter and csv round trip. Added: write/read histories that re-use the same paths and the same reader for different grids, call histories on one EnergyReader, files with repeated time stamps. Later rounds added: legends that are prefixes of earlier legends.",
   note="Legend texts without double quotes; GROMACS fixed number format."),
}
NOT_YET = {}

# additions of waves 6-7 (appended to the texts above)
EXTRA = {
 "C01": "Rounds 6-7 added: csr input with unsorted indices, energies nearly equal on a huge offset, 129x129 and 150x150 lattices (more than 2^16 stored pairs) against a sparse vectorised oracle.",
 "C02": "Rounds 6-8 added: grids with 264, 270 and 650 position cells; an order witness for the position volumes (volume ratios of one direction across shells equal the ratios of the shell-boundary cubes).",
 "C05": "Rounds 6-7 added: every 4-subset of the tenths 0.1-0.8 and 5-subset of 0.1-0.7 as radial grid; randomS N = 66..272; comparisons carry an absolute floor of 1e-9 of the largest entry.",
 "C07": "Rounds 6-7 added: the half-hypercube selection asked for EVERY N on one level-2 polytope.",
 "C08": "Rounds 6-7 added: get_convex_hulls and the position grid's own adjacency/border/distance getters in the history alphabet; fulldiv 8/40/272 in the prefix claim; the subdivision event also subdivides twice without reading and then reads all nodes / the complete half selection.",
 "C09": "Rounds 6-7 added: the empty index subset in three spellings, radii that are thirds under direction grids of a few dozen points, range() texts whose start is finer than the step; the index helpers for EVERY rotation-grid size 1..112 (thorough 1..272); randomS grids with 50-500 directions in the decomposition.",
 "C10": "Rounds 6-7 added: a molecule with a massless site, gro and pdb input files, every row count 1..10, a writer history on a grid reaching beyond half the periodic cell.",
 "C11": "Rounds 6-8 added: a 40-rotation grid in the quick tier with radii [0.3, 0.6, 0.9]; a first molecule read from a .gro file (3 nm periodic box) with placements beyond half the box; a molecule whose principal axes are defined by its masses only.",
 "C13": "Rounds 6-8 added: every ordered tuple of 3 (n = 4..6) and 4 (n = 5) join lists in one call, also after a deletion; structured histories on 130 and 260 cells.",
 "C03": "Round 8 added: N = 257, 258.",
 "C04": "Round 8 added: N = 66, 70 (more than 128 double-cover cells) in the quick tier.",
 "C14": "Rounds 6-7 added: a steady-ramp landscape spanning more than the cap, the setting which='SM' without shift, one 2250-cell grid (cube4D_30 x ico_25 x 3 radii) under shift-invert settings.",
 "C16": "Rounds 6-7 added: stops off the lattice and steps small relative to the stop (defect F17 found and fixed), lists with a repeated entry, minus signs separated from their digits, descending ranges with off-lattice stops.",
 "C17": "Rounds 6-7 added: 4 tokens in the quick tier, 5 (thorough 6) tokens over a reduced alphabet.",
 "C18": "Rounds 6-7 added: branching histories (deepcopy / pickle round trip at every point, the copy subdivided further, the original re-checked).",
 "C20": "Rounds 6-7 added: legends with inner blanks, commas, keyword-like and non-ASCII text; file names containing the other type's extension; tables of 1500 and 70000 rows; time axes starting below zero.",
}
for _k, _v in EXTRA.items():
    CHECKS[_k]["text"] = CHECKS[_k]["text"].rstrip() + " " + _v


def main():
    props = [json.loads(l) for l in open(os.path.join(VERIF, "properties.jsonl"))]
    checks = []
    na = []
    for p in props:
        pid = p["id"]
        if pid in CHECKS:
            c = CHECKS[pid]
            checks.append({
                "property_id": pid,
                "quick_cmd": f"{PY} /verif/run_check.py {pid} --tier quick",
                "thorough_cmd": f"{PY} /verif/run_check.py {pid} --tier thorough",
                "evidence_file": f"/verif/evidence/{pid}.json",
                "replay_cmd_template": f"{PY} /verif/run_check.py {pid} --replay {{path}}",
                "engine": "molgri-mc",
                "level_claimed": {"category": c["category"], "text": c["text"], "design_ref": c["design"]},
                "level_note": c["note"],
                "technique": c["technique"],
            })
        else:
            na.append({"property_id": pid, "reason": NOT_YET.get(pid, "bounded-exhaustive check designed (DESIGN.md §5) but its driver is not built yet; not claimed until it runs green on the unchanged tree")})
    fixes = subprocess.run(["git", "-C", "/repo", "log", "--format=%h %s", "--grep=^fix:"], capture_output=True, text=True).stdout.strip().splitlines()
    man = {
        "version": 1,
        "setup_cmd": "bash /verif/setup.sh",
        "hooks": {"guard": "MOLGRI_VERIF", "enable": "no source hooks are needed: the checks import /repo's working tree directly (editable install; VERIF_REPO=<dir> selects another tree) and reach every seam (transitions.eigs, numpy global RNG, stdout) from outside; run_check.py sets MOLGRI_VERIF=1 only as a marker",
                  "baseline_off_cmd": "cd /repo && /venv/bin/python -m pytest -ra -q -p no:cacheprovider --timeout=900 --continue-on-collection-errors",
                  "source_commits": [], "add_only": True},
        "engines": [{"name": "molgri-mc", "path": "/verif/run_check.py", "serves_properties": sorted(CHECKS),
                     "kind_free_text": "hand-written bounded-exhaustive explorer for Python: explicit-state BFS over operation histories (mc/explorer.py) and exhaustive input/configuration enumeration against independent reference models (checks/*.py), executed on the real molgri code"}],
        "checks": checks,
        "not_applicable": na,
        "notes": "fix: commits in /repo (genuine defects found by the checks): " + "; ".join(fixes),
    }
    with open(os.path.join(VERIF, "MANIFEST.json"), "w") as f:
        json.dump(man, f, indent=1)
    schema = "/root/.vp/MANIFEST.schema.json"
    if os.path.exists(schema):
        r = subprocess.run(["python3-vt", "-c", "import json,sys,jsonschema;jsonschema.Draft202012Validator(json.load(open(sys.argv[1]))).validate(json.load(open(sys.argv[2])))", schema, os.path.join(VERIF, "MANIFEST.json")], capture_output=True, text=True)
        print("manifest valid" if r.returncode == 0 else r.stderr[-800:])
if __name__ == "__main__":
    main()

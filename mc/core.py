"""Shared harness: parallel exhaustive map, violation records, determinism self-check.

Everything here is deliberately boring.  A *check* is a module in /verif/checks with

    PROPERTY = "Cxx"
    def run(ctx) -> Report          # enumerate / explore, collect violations and coverage
    def replay(case) -> list[Violation]   # re-run ONE stored case without the explorer

A *case* is always a JSON-serialisable value (dict) from which the check can rebuild the real objects.
"""
from __future__ import annotations

import hashlib
import json
import os
import sys
import time
import traceback
from concurrent.futures import ProcessPoolExecutor
import multiprocessing as mp


class HarnessError(Exception):
    """A problem of the verification machinery itself (never reported as a property verdict)."""


def jdump(x) -> str:
    return json.dumps(x, sort_keys=True, default=_json_default)


def _json_default(o):
    import numpy as np
    if isinstance(o, np.ndarray):
        return o.tolist()
    if isinstance(o, (np.integer,)):
        return int(o)
    if isinstance(o, (np.floating,)):
        return float(o)
    if isinstance(o, (np.bool_,)):
        return bool(o)
    if isinstance(o, (set, frozenset)):
        return sorted(o)
    if isinstance(o, tuple):
        return list(o)
    return repr(o)


def digest(x) -> str:
    return hashlib.sha256(jdump(x).encode()).hexdigest()[:16]


def viol(key: str, what: str, case, expected=None, observed=None) -> dict:
    """A violation record.  `key` names the specific failing input/history (stable across runs)."""
    return {"key": key, "what": what, "case": case, "expected": expected, "observed": observed}


class Report:
    def __init__(self, property_id: str, level: str):
        self.property_id = property_id
        self.level = level
        self.violations: list[dict] = []
        self.coverage: dict = {}
        self.assumptions: list[str] = []
        self.harness_errors: list[str] = []
        self.notes: list[str] = []

    def add_violations(self, vs):
        self.violations.extend(vs)


class ImplementationRaised(Exception):
    """An exception that left the package under test through a call the driver does not guard.

    The drivers only feed inputs inside a property's quantifier, and on a tree where the property holds none of these
    calls raises (otherwise the check would already fail); so this is reported as a violation, not as a harness error."""

    def __init__(self, items):
        super().__init__(f"{len(items)} unguarded implementation exception(s)")
        self.items = items


def _impl_frame(tb):
    """(file:function:line, exception came out of the package?) -- True when a frame of the package under test lies
    deeper in the traceback than the last harness frame"""
    here = os.path.dirname(os.path.dirname(os.path.abspath(__file__)))
    try:
        import molgri
        pkg = os.path.dirname(os.path.abspath(molgri.__file__))
    except Exception:
        return None
    last_pkg, last_harness, i = None, -1, 0
    last_pkg_i = -1
    while tb is not None:
        fn = tb.tb_frame.f_code.co_filename
        if not os.path.isabs(fn):       # compiled extension modules report relative source names: third-party code
            fn = os.sep + "third_party" + os.sep + fn
        fn = os.path.abspath(fn)
        if fn.startswith(pkg + os.sep):
            last_pkg = f"{os.path.relpath(fn, os.path.dirname(pkg))}:{tb.tb_frame.f_code.co_name}"
            last_pkg_i = i
        elif fn.startswith(here + os.sep):
            last_harness = i
        tb = tb.tb_next
        i += 1
    return last_pkg if last_pkg_i > last_harness else None


def _classify_exception(case):
    et, ev, tb = sys.exc_info()
    where = _impl_frame(tb)
    if where is not None and not isinstance(ev, HarnessError):
        return {"impl_error": {"type": et.__name__, "msg": str(ev)[:160], "where": where,
                               "traceback": traceback.format_exc(limit=14)}, "case": case}
    return {"harness_error": traceback.format_exc(limit=12), "case": case}


def _guarded(args):
    func, case = args
    try:
        return {"ok": func(case)}
    except ImplementationRaised as e:        # from an Isolated child
        return {"impl_error": e.items[0]["impl_error"], "case": case}
    except Exception:
        return _classify_exception(case)


class Isolated:
    """Wraps a case function so that every case runs in its OWN forked child of the (pristine) pool worker.

    Used where process-global state (class-level caches, module registries, the global RNG) is the subject of the check:
    a pooled worker would otherwise carry such state from one case into the next and make results order dependent."""

    def __init__(self, func):
        self.func = func

    def __call__(self, case):
        import pickle
        r, w = os.pipe()
        pid = os.fork()
        if pid == 0:
            code = 0
            try:
                os.close(r)
                try:
                    payload = pickle.dumps(("ok", self.func(case)))
                except Exception:
                    c = _classify_exception(case)
                    payload = pickle.dumps(("impl", c) if "impl_error" in c else ("err", c["harness_error"]))
                with os.fdopen(w, "wb") as f:
                    f.write(payload)
            except BaseException:
                code = 1
            finally:
                os._exit(code)
        os.close(w)
        with os.fdopen(r, "rb") as f:
            data = f.read()
        os.waitpid(pid, 0)
        if not data:
            raise HarnessError("isolated child died without a result")
        kind, val = pickle.loads(data)
        if kind == "impl":
            raise ImplementationRaised([val])
        if kind == "err":
            raise HarnessError("isolated child raised:\n" + val)
        return val


class Ctx:
    def __init__(self, tier: str, seed: int, out, workers: int | None = None):
        self.tier = tier
        self.seed = seed
        self.out = out
        self.workers = workers or int(os.environ.get("VERIF_WORKERS", os.cpu_count() or 4))
        self.t0 = time.time()
        self.recheck_mismatch: list = []
        self.recheck_done = 0

    @property
    def thorough(self) -> bool:
        return self.tier == "thorough"

    def log(self, *a):
        print(*a, file=self.out, flush=True)

    def rotate(self, cases: list) -> list:
        """VERIF_SEED only rotates the *order* of enumeration; the set of cases never depends on it."""
        if not cases:
            return cases
        k = self.seed % len(cases)
        return cases[k:] + cases[:k]

    def pmap(self, func, cases: list, chunksize: int = 1, recheck: int = 6, serial: bool = False) -> list:
        """Run func on every case (forked workers; molgri already imported in the parent).

        Returns results in the order of `cases`.  The first `recheck` cases are executed a second time and
        must give identical JSON (nondeterminism not owned by the harness => HarnessError)."""
        cases = list(cases)
        n = len(cases)
        if n == 0:
            return []
        order = self.rotate(list(range(n)))
        todo = [(func, cases[i]) for i in order]
        extra = [(func, cases[i]) for i in order[:min(recheck, n)]]
        if serial or self.workers <= 1 or n == 1:
            raw = [_guarded(t) for t in todo]
            raw2 = [_guarded(t) for t in extra]
        else:
            with ProcessPoolExecutor(max_workers=min(self.workers, n + len(extra)),
                                     mp_context=mp.get_context("fork")) as ex:
                allr = list(ex.map(_guarded, todo + extra, chunksize=chunksize))
            raw, raw2 = allr[:n], allr[n:]
        for a, b, idx in zip(raw, raw2, order):
            self.recheck_done += 1
            if jdump(a) != jdump(b):
                self.recheck_mismatch.append({"case": cases[idx], "first": a, "second": b})
        results = [None] * n
        impl = [r for r in raw if "impl_error" in r]
        if impl and not any("harness_error" in r for r in raw):
            raise ImplementationRaised(impl)
        for idx, r in zip(order, raw):
            if "harness_error" in r:
                raise HarnessError(f"case {jdump(r['case'])[:400]} raised inside the harness:\n{r['harness_error']}")
            results[idx] = r["ok"]
        if self.recheck_mismatch:
            m = self.recheck_mismatch[0]
            raise HarnessError("nondeterministic case result (same case, two executions differ): "
                               + jdump(m)[:1500])
        return results


class Sequence:
    """Case function for {"seq": [case, case, ...]}: runs the wrapped case function on every member IN ONE PROCESS, in
    order (wrap in Isolated so that process is a fresh fork).  Each member is judged by the check's own absolute oracle,
    so state carried from an earlier object into a later one (module-level memo, class attribute, shared default) shows
    up as a violation of the later member; keys carry the history that preceded it."""

    def __init__(self, func, label):
        self.func, self.label = func, label

    def __call__(self, case):
        out, hist = [], []
        for member in case["seq"]:
            r = self.func(member)
            for v in r["violations"]:
                v = dict(v)
                if hist:
                    v["key"] = v["key"] + "|after=" + ">".join(hist)
                v["case"] = case
                out.append(v)
            hist.append(self.label(member))
        return {"violations": out, "members": len(case["seq"])}


def collect_samples(items, k=4):
    items = list(items)
    if len(items) <= k:
        return items
    step = max(1, len(items) // k)
    return [items[i] for i in range(0, len(items), step)][:k]

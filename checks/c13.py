"""C13 -- merging and deleting cells is exact lumping with correct index bookkeeping.

Shape A (explicit-state BFS over operation histories, real code and reference model in lock-step) plus a
shortcut-directed depth-1/2 enumeration for n in 9..12 (CPython small-int set order) and the combined
SQRA.cut_and_merge step.

Reference model O-LUMP: a partition of the surviving original cells.
  merge(J):  union-find over *all* original ids; the current groups are pre-united, every sublist of J unites its
             members (ids that are no longer present act only as connectors -- this is the code's documented
             reading: closure over listed ids first); the new groups are the components restricted to present cells.
  delete(S): every group that contains a listed cell disappears; absent cells are ignored.
  index list = groups sorted internally, ordered by smallest member.
  off-diagonal (A,B) = sum of ORIGINAL entries M0[i,j], i in A, j in B.
  diagonal: merge keeps P^T M P (block sums of the current matrix); delete re-sets diag so the row sums to 0.
All base matrices are integer valued, so every comparison is exact (==), no tolerance.
"""
from __future__ import annotations

import itertools

import numpy as np
from scipy.sparse import csr_array, coo_array

from mc.core import Report, viol, collect_samples
from mc import explorer

from molgri.molecules.rate_merger import merge_matrix_cells, delete_rate_cells
from molgri.molecules.transitions import SQRA

PROPERTY = "C13"


# ---------------------------------------------------------------------------------------------- base matrices
def base_matrix(n: int, kind: str) -> np.ndarray:
    """Deterministic integer matrices; distinct entries so that a mis-assigned lump changes some value."""
    primes = [2, 3, 5, 7, 11, 13, 17, 19, 23, 29, 31, 37, 41, 43, 47, 53, 59, 61, 67, 71, 73, 79, 83, 89, 97, 101,
              103, 107, 109, 113, 127, 131, 137, 139, 149, 151, 157, 163, 167, 173, 179, 181, 191, 193, 197, 199,
              211, 223, 227, 229, 233, 239, 241, 251, 257, 263, 269, 271, 277, 281, 283, 293, 307, 311, 313, 317,
              331, 337, 347, 349, 353, 359, 367, 373, 379, 383, 389, 397, 401, 409, 419, 421, 431, 433, 439, 443,
              449, 457, 461, 463, 467, 479, 487, 491, 499, 503, 509, 521, 523, 541, 547, 557, 563, 569, 571, 577,
              587, 593, 599, 601, 607, 613, 617, 619, 631, 641, 643, 647, 653, 659, 661, 673, 677, 683, 691, 701,
              709, 719, 727, 733, 739, 743, 751, 757, 761, 769, 773, 787, 797, 809, 811, 821, 823, 827, 829, 839]
    M = np.zeros((n, n))
    k = 0
    if kind == "asym":       # zero-row-sum generator, asymmetric, some structural zeros
        for i in range(n):
            for j in range(n):
                if i != j:
                    M[i, j] = 0.0 if (i + 2 * j) % 5 == 0 else float(primes[k % len(primes)])
                    k += 1
        M -= np.diag(M.sum(axis=1))
    elif kind == "sym":      # symmetric, rows do NOT sum to zero (diagonal arbitrary)
        for i in range(n):
            for j in range(i, n):
                v = 0.0 if (i != j and (i * j) % 7 == 3) else float(primes[k % len(primes)])
                M[i, j] = M[j, i] = v
                k += 1
    else:
        raise ValueError(kind)
    return M


def to_dense(x) -> np.ndarray:
    if hasattr(x, "toarray"):
        return np.asarray(x.toarray(), dtype=float)
    return np.asarray(x, dtype=float)


# ---------------------------------------------------------------------------------------------- reference model
def model_merge(groups, J, n):
    parent = list(range(n + 64))

    def find(a):
        while parent[a] != a:
            parent[a] = parent[parent[a]]
            a = parent[a]
        return a

    def union(a, b):
        ra, rb = find(a), find(b)
        if ra != rb:
            parent[max(ra, rb)] = min(ra, rb)

    for g in groups:
        for x in g[1:]:
            union(g[0], x)
    for sub in J:
        for x in sub[1:]:
            union(sub[0], x)
    present = sorted(x for g in groups for x in g)
    comp = {}
    for x in present:
        comp.setdefault(find(x), []).append(x)
    return sorted((sorted(v) for v in comp.values()), key=lambda g: g[0])


def model_delete(groups, S):
    S = set(S)
    return [g for g in groups if not (set(g) & S)]


def lump_offdiag(M0, groups):
    k = len(groups)
    E = np.zeros((k, k))
    for a, A in enumerate(groups):
        for b, B in enumerate(groups):
            E[a, b] = M0[np.ix_(A, B)].sum()
    return E


def model_matrix_merge(E, old_groups, new_groups):
    """P^T E P expressed on groups: each new group is a union of old groups."""
    pos = {tuple(g): i for i, g in enumerate(old_groups)}
    member = []
    for G in new_groups:
        member.append([i for g, i in pos.items() if set(g) <= set(G)])
    k = len(new_groups)
    R = np.zeros((k, k))
    for a in range(k):
        for b in range(k):
            R[a, b] = E[np.ix_(member[a], member[b])].sum()
    return R


def model_matrix_delete(E, old_groups, new_groups):
    keep = [i for i, g in enumerate(old_groups) if g in new_groups]
    R = E[np.ix_(keep, keep)].copy()
    if R.size:
        R = R - np.diag(R.sum(axis=1))
    return R


# ---------------------------------------------------------------------------------------------- events
def hist_str(hist):
    parts = []
    for ev in hist:
        if ev["op"] == "merge":
            parts.append("m" + str(ev["J"]).replace(" ", ""))
        else:
            parts.append("d" + str(ev["S"]).replace(" ", ""))
    return ";".join(parts)


def all_subsets(n, lo, hi):
    for k in range(lo, hi + 1):
        for c in itertools.combinations(range(n), k):
            yield list(c)


class LumpSystem:
    """Real code (dense ndarray run and csr_array run in lock-step) + model."""

    def __init__(self, n, kind, merge_pairs=True, alphabet=None, scale_exp=0):
        self.n, self.kind = n, kind
        self.scale_exp = scale_exp
        # power-of-two scaling keeps every sum exact; 2**-34 ~ 5.8e-11 puts all entries below absolute tolerances
        self.M0 = base_matrix(n, kind) * (2.0 ** (0 if scale_exp == "int" else scale_exp))
        if scale_exp == "int":          # the same integers handed over with an integer dtype
            self.M0 = base_matrix(n, kind).astype(np.int64)
        self.merge_pairs = merge_pairs
        self.alphabet = alphabet
        if n > 12:                 # replay-only use for large matrices: the exhaustive alphabet is never enumerated
            self._events = []
            return
        singles = list(all_subsets(n, 2, n))
        self._singles = singles
        ev = [{"op": "merge", "J": [s]} for s in singles]
        if merge_pairs:
            for a, b in itertools.combinations(singles, 2):
                ev.append({"op": "merge", "J": [a, b]})
            # redundancy inside one sublist / reversed order inside a sublist
            ev.append({"op": "merge", "J": [[0, 0, 1]]})
            ev.append({"op": "merge", "J": [[n - 1, 0]]})
        for s in all_subsets(n, 1, n - 1):
            ev.append({"op": "delete", "S": s})
        ev.append({"op": "delete", "S": []})          # deleting nothing still re-sets the diagonal
        self._events = ev

    # -- explorer interface
    def initial(self):
        return {"hist": [], "D": self.M0.copy(), "iD": None, "S": csr_array(self.M0), "iS": None,
                "groups": [[i] for i in range(self.n)], "E": self.M0.copy(), "broken": False}

    def events(self, st):
        if st["broken"]:
            return []
        evs = self.alphabet if self.alphabet is not None else self._events
        present = set(x for g in st["groups"] for x in g)
        out = []
        for ev in evs:
            if ev["op"] == "delete":
                # deleting every remaining cell ends a history: not in the alphabet
                if all(set(g) & set(ev["S"]) for g in st["groups"]):
                    continue
            out.append(ev)
        return out

    def terminal(self, st):
        return st["broken"] or len(st["groups"]) <= 1

    def canon(self, st):
        return repr((st["iD"], to_dense(st["D"]).tobytes().hex(), st["iS"], to_dense(st["S"]).tobytes().hex(),
                     st["broken"]))

    def observe(self, st):
        return (str(st["iD"]), len(st["groups"]))

    def _call(self, M, idx, ev):
        if ev["op"] == "merge":
            J = [list(s) for s in ev["J"]]
            return merge_matrix_cells(my_matrix=M, all_to_join=J, index_list=idx)
        return delete_rate_cells(M, to_remove=list(ev["S"]), index_list=idx)

    def apply_quiet(self, st, ev):
        return self.apply(st, ev, meta=False)

    def apply(self, st, ev, meta=True):
        hist = st["hist"] + [ev]
        case = {"n": self.n, "kind": self.kind, "history": hist, "scale_exp": self.scale_exp}
        hs = hist_str(hist)
        pre = f"C13|n={self.n}|base={self.kind}" + (("|dtype=int64" if self.scale_exp == "int" else f"|scale=2^{self.scale_exp}") if self.scale_exp else "") + f"|hist={hs}"
        vs = []
        # model step
        if ev["op"] == "merge":
            groups = model_merge(st["groups"], ev["J"], self.n)
            E = model_matrix_merge(st["E"], st["groups"], groups)
        else:
            groups = model_delete(st["groups"], ev["S"])
            E = model_matrix_delete(st["E"], st["groups"], groups)
        new = {"hist": hist, "groups": groups, "E": E, "broken": False}
        # implementation step (inputs must not be mutated)
        for tag, mk, ik in (("dense", "D", "iD"), ("sparse", "S", "iS")):
            M_in, idx_in = st[mk], st[ik]
            before_M = to_dense(M_in).copy()
            before_idx = repr(idx_in)
            try:
                R, ridx = self._call(M_in, idx_in, ev)
            except Exception as e:  # any exception is a violation of the property (histories must be total)
                vs.append(viol(f"{pre}|{tag}|raises", f"{ev['op']} raised {type(e).__name__}: {str(e)[:120]}", case,
                               expected=groups, observed=type(e).__name__))
                new["broken"] = True
                new[mk], new[ik] = M_in, idx_in
                continue
            new[mk], new[ik] = R, ridx
            if not np.array_equal(before_M, to_dense(M_in)) or before_idx != repr(idx_in):
                vs.append(viol(f"{pre}|{tag}|mutates_input", "operation mutated its input matrix/index list", case))
            obs_idx = None if ridx is None else [[int(x) for x in g] for g in ridx]
            if obs_idx != groups:
                vs.append(viol(f"{pre}|{tag}|index_list", "index list differs from the lumping model", case,
                               expected=groups, observed=obs_idx))
            Rd = to_dense(R)
            if Rd.shape != E.shape:
                vs.append(viol(f"{pre}|{tag}|shape", "matrix shape differs from number of groups", case,
                               expected=list(E.shape), observed=list(Rd.shape)))
                new["broken"] = True
                continue
            if tag == "sparse" and not isinstance(R, csr_array):
                vs.append(viol(f"{pre}|{tag}|type", "sparse input did not give csr_array output", case,
                               observed=type(R).__name__))
            off = ~np.eye(len(groups), dtype=bool)
            L = lump_offdiag(self.M0, groups)
            if not np.array_equal(Rd[off], L[off]):
                vs.append(viol(f"{pre}|{tag}|offdiag", "off-diagonal entries are not the sums of original entries",
                               case, expected=L.tolist(), observed=Rd.tolist()))
            if not np.array_equal(np.diag(Rd), np.diag(E)):
                vs.append(viol(f"{pre}|{tag}|diag", "diagonal differs from P^T M P / re-normalised diagonal", case,
                               expected=np.diag(E).tolist(), observed=np.diag(Rd).tolist()))
            if self.kind == "asym" and Rd.size and not np.array_equal(Rd.sum(axis=1), np.zeros(len(Rd))):
                vs.append(viol(f"{pre}|{tag}|rowsum", "rows of a zero-row-sum input no longer sum to zero", case,
                               observed=Rd.sum(axis=1).tolist()))
            if self.kind == "sym" and all(e["op"] == "merge" for e in hist) and not np.array_equal(Rd, Rd.T):
                vs.append(viol(f"{pre}|{tag}|symmetry", "symmetric input lost symmetry", case, observed=Rd.tolist()))
            if self.kind == "sym" and not np.array_equal(Rd[off], Rd.T[off]):
                vs.append(viol(f"{pre}|{tag}|symmetry_off", "symmetric input lost off-diagonal symmetry", case))
        if not new["broken"]:
            if not np.array_equal(to_dense(new["D"]), to_dense(new["S"])) or repr(new["iD"]) != repr(new["iS"]):
                vs.append(viol(f"{pre}|dense_vs_sparse", "dense and sparse runs disagree", case))
            if meta:
                vs.extend(self._metamorphic(st, ev, new, pre, case))
        return new, vs

    def _metamorphic(self, st, ev, new, pre, case):
        """order / redundancy / one-shot vs step-wise / explicit identity list -- all executed on the real code."""
        vs = []
        ref = (to_dense(new["D"]), repr(new["iD"]))

        def same(R, ridx):
            return np.array_equal(to_dense(R), ref[0]) and repr(ridx) == ref[1]

        variants = []
        if ev["op"] == "merge":
            J = ev["J"]
            variants.append(("reversed_lists", lambda M, i: merge_matrix_cells(M, [list(s)[::-1] for s in J][::-1], i)))
            variants.append(("duplicated_lists", lambda M, i: merge_matrix_cells(M, [list(s) for s in J] * 2, i)))
            present = set(x for g in st["groups"] for x in g)
            # one-shot == step-wise is only unambiguous when every listed cell is still present (absent ids act as
            # connectors in a one-shot closure, and are ignored in single steps)
            if (len(J) > 1 or len(J[0]) > 2) and all(x in present for s in J for x in s):
                def stepwise(M, i):
                    for s in J:
                        for a, b in zip(s, s[1:]):
                            M, i = merge_matrix_cells(M, [[a, b]], i)
                    return M, i
                variants.append(("stepwise_pairs", stepwise))
        else:
            S = ev["S"]
            variants.append(("reversed_set", lambda M, i: delete_rate_cells(M, list(S)[::-1], i)))
            variants.append(("duplicated_set", lambda M, i: delete_rate_cells(M, list(S) * 2, i)))
            if len(S) > 1:
                def stepwise_d(M, i):
                    for s in S:
                        M, i = delete_rate_cells(M, [s], i)
                    return M, i
                variants.append(("stepwise_single", stepwise_d))
        if st["iD"] is None:
            ident = [[i] for i in range(self.n)]
            if ev["op"] == "merge":
                variants.append(("explicit_identity_list", lambda M, i: merge_matrix_cells(M, [list(s) for s in ev["J"]], ident)))
            else:
                variants.append(("explicit_identity_list", lambda M, i: delete_rate_cells(M, list(ev["S"]), ident)))
        for name, f in variants:
            for tag, mk, ik in (("dense", "D", "iD"), ("sparse", "S", "iS")):
                try:
                    R, ridx = f(st[mk], st[ik])
                except Exception as e:
                    vs.append(viol(f"{pre}|{tag}|variant={name}|raises", f"equivalent call ({name}) raised "
                                   f"{type(e).__name__}: {str(e)[:100]}", dict(case, variant=name)))
                    continue
                if not same(R, ridx):
                    vs.append(viol(f"{pre}|{tag}|variant={name}", f"result depends on {name}", dict(case, variant=name),
                                   expected=[ref[0].tolist(), ref[1]],
                                   observed=[to_dense(R).tolist(), repr(ridx)]))
        return vs


def run_history(case):
    sysm = LumpSystem(case["n"], case["kind"], merge_pairs=False, scale_exp=case.get("scale_exp", 0))
    st = sysm.initial()
    allv = []
    for ev in case["history"]:
        st, vs = sysm.apply(st, ev)
        allv.extend(vs)
        if st["broken"]:
            break
    return allv


# ---------------------------------------------------------------------------------------------- big-n depth 1/2
def bign_case(case):
    vs = run_history(case)
    return {"violations": vs, "nontrivial": True}


def bign_cases(tier):
    cases = []
    ns = [9, 10] if tier == "quick" else [9, 10, 11, 12]
    for n in ns:
        for kind in ("asym",) if tier == "quick" else ("asym", "sym"):
            for s in all_subsets(n, 1, n - 1):
                cases.append({"n": n, "kind": kind, "history": [{"op": "delete", "S": s}]})
            for s in all_subsets(n, 2, n):
                cases.append({"n": n, "kind": kind, "history": [{"op": "merge", "J": [s]}]})
    # depth 2 over a structured sub-alphabet: contiguous blocks and strided sets
    for n in ns:
        blocks = []
        for a in range(n):
            for b in range(a + 1, n + 1):
                blocks.append(list(range(a, b)))
        strided = [list(range(a, n, st)) for st in (2, 3) for a in range(st)]
        alph = [s for s in blocks + strided if 1 <= len(s) <= n - 1]
        uniq = []
        for s in alph:
            if s not in uniq:
                uniq.append(s)
        for s1 in uniq:
            for s2 in uniq:
                if len(s2) >= 2:
                    cases.append({"n": n, "kind": "asym", "history": [{"op": "delete", "S": s1},
                                                                       {"op": "merge", "J": [s2]}]})
                if len(s1) >= 2:
                    cases.append({"n": n, "kind": "asym", "history": [{"op": "merge", "J": [s1]},
                                                                       {"op": "delete", "S": s2}]})
    # one call with MANY join lists: every ordered tuple of 3 distinct pair-lists (n = 4, 5, 6), of 4 distinct pair-lists
    # (n = 5) and of 3 lists of size 2..3 (n = 5) -- from the initial state and after a deletion (bridging lists, chains
    # that close late, lists that touch a deleted cell)
    for n, sizes, k in ((4, (2,), 3), (5, (2,), 3), (6, (2,), 3), (5, (2,), 4), (5, (2, 3), 3)):
        if tier == "quick" and (n, sizes, k) in ((5, (2,), 4), (5, (2, 3), 3)):
            continue
        subl = [s for s in all_subsets(n, min(sizes), max(sizes))]
        for kind in ("asym", "sym"):
            for J in itertools.permutations(subl, k):
                cases.append({"n": n, "kind": kind, "history": [{"op": "merge", "J": [list(x) for x in J]}]})
                if n <= 5 and k == 3 and sizes == (2,):
                    cases.append({"n": n, "kind": kind, "history": [{"op": "delete", "S": [1]},
                                                                    {"op": "merge", "J": [list(x) for x in J]}]})
    # larger matrices, longer structured histories (merge many pairs, delete a stripe, chain-merge through deleted cells,
    # merge everything that is left in two steps)
    for n in (24, 40, 130, 260):
        for kind in ("asym", "sym"):
            pairs = [[2 * i, 2 * i + 1] for i in range(n // 4)]
            stripe = list(range(n // 2 + 1, n, 3))
            chain = [[i, i + 2] for i in range(0, n - 2, 4)]
            through_deleted = [[n // 2, stripe[0]], [stripe[0], n - 1], [stripe[1], 1]]
            rest_a = [list(range(0, n, 2))]
            rest_b = [list(range(1, n, 2)), [0, 1]]
            hist = [{"op": "merge", "J": pairs}, {"op": "delete", "S": stripe}, {"op": "merge", "J": chain},
                    {"op": "merge", "J": through_deleted}, {"op": "delete", "S": [3, stripe[0], n - 2]},
                    {"op": "merge", "J": rest_a}, {"op": "delete", "S": []}, {"op": "merge", "J": rest_b}]
            for L in range(2, len(hist) + 1):
                cases.append({"n": n, "kind": kind, "history": hist[:L]})
            cases.append({"n": n, "kind": kind, "history": hist[::-1][2:]})
    return cases


# ---------------------------------------------------------------------------------------------- cut_and_merge
def cam_case(case):
    """SQRA.cut_and_merge on a small chain/grid graph; case = {n, energies, lower, upper, T}."""
    n = case["n"]
    E = np.array(case["energies"], dtype=float)
    T = case["T"]
    # adjacency: ring + one chord, symmetric; integer surfaces and distances
    rows, cols = [], []
    for i in range(n):
        for j in range(n):
            if i != j and ((abs(i - j) in (1, n - 1)) or {i, j} == {0, n // 2}):
                rows.append(i)
                cols.append(j)
    rows, cols = np.array(rows), np.array(cols)
    dist = coo_array((1.0 + (rows + cols) % 3, (rows, cols)), shape=(n, n))
    surf = coo_array((2.0 + (rows * cols) % 5, (rows, cols)), shape=(n, n))
    vol = 1.0 + np.arange(n) % 4
    sq = SQRA(energies=E, volumes=vol, distances=dist.tocsr(), surfaces=surf.tocsr())
    M0 = base_matrix(n, case.get("base", "asym"))
    Q = csr_array(M0)
    key = f"C13|cut_and_merge|n={n}|base={case.get('base', 'asym')}|E={case['ename']}|lower={case['lower']}|upper={case['upper']}"
    vs = []
    try:
        R, idx = sq.cut_and_merge(Q, T=T, lower_limit=case["lower"], upper_limit=case["upper"])
    except Exception as e:
        return {"violations": [viol(key + "|raises", f"cut_and_merge raised {type(e).__name__}: {str(e)[:120]}", case,
                                    observed=type(e).__name__)], "nontrivial": True, "groups": "raised"}
    from scipy.constants import k as kB, N_A
    RT = kB * N_A * T
    groups = [[i] for i in range(n)]
    if case["lower"] is not None:
        J = [[int(r), int(c)] for r, c in zip(rows, cols) if abs(E[r] - E[c]) * 1000 / RT < case["lower"]]
        groups = model_merge(groups, J, n)
    if case["upper"] is not None:
        S = [i for i in range(n) if E[i] * 1000 / RT > case["upper"]]
        groups = model_delete(groups, S)
    Rd = to_dense(R)
    if case["lower"] is None and case["upper"] is None:
        if idx is not None or not np.array_equal(Rd, M0):
            vs.append(viol(key + "|no_limits", "without limits the matrix must be returned unchanged with no index list",
                           case, observed=repr(idx)))
    else:
        obs_idx = None if idx is None else [[int(x) for x in g] for g in idx]
        if obs_idx is None or len(obs_idx) != Rd.shape[0]:
            vs.append(viol(key + "|one_group_per_row", "reduced matrix must come with an index list that has one "
                           "group per row", case, expected=groups, observed=obs_idx))
        elif obs_idx != groups:
            vs.append(viol(key + "|index_list", "index list differs from the lumping model", case, expected=groups,
                           observed=obs_idx))
        if Rd.shape[0] == len(groups) and len(groups) > 0:
            off = ~np.eye(len(groups), dtype=bool)
            L = lump_offdiag(M0, groups)
            if not np.array_equal(Rd[off], L[off]):
                vs.append(viol(key + "|offdiag", "off-diagonal entries are not sums of original entries", case))
            if case["upper"] is not None and not np.array_equal(Rd.sum(axis=1), np.zeros(len(Rd))):
                vs.append(viol(key + "|rowsum", "rows do not sum to zero after the cut", case))
        elif Rd.shape[0] != len(groups):
            vs.append(viol(key + "|shape", "number of rows differs from number of surviving groups", case,
                           expected=len(groups), observed=int(Rd.shape[0])))
    nontrivial = len(groups) < n
    return {"violations": vs, "nontrivial": nontrivial, "groups": groups}


def cam_cases(tier):
    cases = []
    menus = {
        "all_equal": lambda n: [1.0] * n,
        "two_clusters": lambda n: [0.0 if i < n // 2 else 30.0 for i in range(n)],
        "one_outlier": lambda n: [0.5 * i for i in range(n - 1)] + [90.0],
        "smooth": lambda n: [0.001 * i for i in range(n)],
        "none_above": lambda n: [-5.0 - i for i in range(n)],
        "mixed": lambda n: [0.0, 0.0005, 40.0, 40.0002, 3.0, 3.0, 60.0, -2.0, -2.0001, 7.0, 7.5, 80.0][:n],
    }
    for n in ([6, 10] if tier == "quick" else [5, 6, 7, 9, 10, 12]):
        for ename, f in menus.items():
            for lower in (None, 0.001, 0.5, 1e9):
                for upper in (None, 10.0, 0.0, -1e9 if False else 1e9):
                    for T in (273.0, 310.0):
                        cases.append({"n": n, "ename": ename, "energies": f(n), "lower": lower, "upper": upper, "T": T})
                        if T == 273.0:
                            cases.append({"n": n, "ename": ename, "energies": f(n), "lower": lower, "upper": upper, "T": T,
                                          "base": "sym"})
    return cases


# ---------------------------------------------------------------------------------------------- entry points
def run(ctx):
    rep = Report(PROPERTY, "model_checking")
    tot_states = tot_trans = 0
    samples = []
    bounds = []
    exhaustive = True
    distinct_obs = 0
    plan = [(4, "asym", 3, True, 0), (4, "sym", 2, True, 0), (5, "asym", 2, False, 0), (4, "asym", 2, False, -34),
            (4, "sym", 2, False, 27), (4, "asym", 2, False, "int")] if not ctx.thorough else \
           [(4, "asym", 3, True, 0), (4, "sym", 3, True, 0), (5, "asym", 3, False, 0), (5, "sym", 2, True, 0),
            (6, "asym", 2, False, 0), (4, "asym", 3, False, -34), (5, "sym", 2, False, 27), (5, "asym", 2, False, -60), (5, "sym", 2, False, "int"), (4, "asym", 3, False, "int")]
    for n, kind, depth, pairs, sexp in plan:
        sysm = LumpSystem(n, kind, merge_pairs=pairs, scale_exp=sexp)
        r = explorer.bfs(ctx, sysm, depth=depth)
        tot_states += r["states"]
        tot_trans += r["transitions"]
        distinct_obs += r["distinct_observations"]
        rep.add_violations(r["violations"])
        samples.extend(hist_str(h) for h in r["samples"][:2])
        bounds.append({"n": n, "base": kind, "depth": depth, "merge_pairs": pairs, "scale": "int64 dtype" if sexp == "int" else f"2^{sexp}", "events_per_state": len(sysm._events),
                       "states": r["states"], "transitions": r["transitions"], "capped": r["capped"]})
        exhaustive &= not r["capped"]
        ctx.log(f"  C13 bfs n={n} base={kind} depth={depth}: states={r['states']} transitions={r['transitions']} "
                f"violations={len(r['violations'])} t={__import__('time').time()-ctx.t0:.0f}s")
    # shortcut-directed big-n enumeration
    bc = bign_cases(ctx.tier)
    res = ctx.pmap(bign_case, bc, chunksize=64)
    for r in res:
        rep.add_violations(r["violations"])
    ctx.log(f"  C13 big-n cases={len(bc)} t={__import__('time').time()-ctx.t0:.0f}s")
    cc = cam_cases(ctx.tier)
    res2 = ctx.pmap(cam_case, cc, chunksize=8)
    cam_nontrivial = len({str(r["groups"]) for r in res2 if r["nontrivial"]})
    for r in res2:
        rep.add_violations(r["violations"])
    rep.coverage = {
        "states": tot_states, "transitions": tot_trans + len(bc) + len(cc),
        "traces_validated_against_impl": tot_trans + len(bc) + len(cc),
        "samples": samples + [hist_str(c["history"]) for c in collect_samples(bc, 3)],
        "evaluations": tot_trans + len(bc) + len(cc),
        "distinct_nontrivial": tot_states + cam_nontrivial,
        "distinct_observations": distinct_obs,
        "rule": "BFS over merge/delete histories (every subset merge, every pair of subset merges, every proper "
                "deletion set) on integer matrices, dense and csr in lock-step with the lumping model; states are "
                "distinct (index list, matrix bytes); plus all 2^n-2 deletion sets and all single-group merges for "
                "n in 9..12 at depth 1, block/strided depth-2 histories, and SQRA.cut_and_merge over limit/energy menus",
        "bound": bounds, "bign_cases": len(bc), "cut_and_merge_cases": len(cc),
        "cut_and_merge_distinct_partitions": cam_nontrivial,
        "exhaustive": bool(exhaustive),
    }
    rep.assumptions = ["integer-valued base matrices: all comparisons exact", "model semantics for absent ids: "
                       "connectors in the transitive closure (the code's documented reading)",
                       "every model step is executed on the implementation in lock-step (no model-only trace)"]
    return rep


def replay(case):
    if "history" in case:
        c = dict(case)
        c.pop("variant", None)
        return run_history(c)
    return cam_case(case)["violations"]

#!/usr/bin/env python3
"""Regenerates /verif/MANIFEST.json from the table below (keeps it schema-valid at all times)."""
import json, os, subprocess, sys
VERIF = os.path.dirname(os.path.dirname(os.path.abspath(__file__)))
PY = "/venv/bin/python"

CHECKS = {
 "C13": dict(category="model_checking", design="DESIGN.md §5 C13",
   technique="explicit-state BFS over merge/delete histories on the real functions, lock-step lumping model; exhaustive deletion sets n<=12",
   text="Every merge/delete history up to depth 3 over the full subset alphabet on 4-cell matrices (depth 2 on 5 cells), all 2^n-2 deletion sets and all single-group merges for n=9..12, and the cut_and_merge limit/energy menu are executed on the real code (dense and csr in lock-step) and compared exactly with a union-find lumping model; histories are the quantifier of the property, so a bounded-exhaustive history exploration is the right level.",
   note="Trusted: the 60-line union-find/lumping model in checks/c13.py; integer base matrices (exact arithmetic). Bound: n<=6 for deep histories, n<=12 for depth 1-2."),
}
NOT_YET = {}

def main():
    props = [json.loads(l) for l in open(os.path.join(VERIF, "properties.jsonl"))]
    checks = []
    na = []
    for p in props:
        pid = p["id"]
        if pid in CHECKS:
            c = CHECKS[pid]
            checks.append({
                "property_id": pid,
                "quick_cmd": f"{PY} /verif/run_check.py {pid} --tier quick",
                "thorough_cmd": f"{PY} /verif/run_check.py {pid} --tier thorough",
                "evidence_file": f"/verif/evidence/{pid}.json",
                "replay_cmd_template": f"{PY} /verif/run_check.py {pid} --replay {{path}}",
                "engine": "molgri-mc",
                "level_claimed": {"category": c["category"], "text": c["text"], "design_ref": c["design"]},
                "level_note": c["note"],
                "technique": c["technique"],
            })
        else:
            na.append({"property_id": pid, "reason": NOT_YET.get(pid, "bounded-exhaustive check designed (DESIGN.md §5) but its driver is not built yet; not claimed until it runs green on the unchanged tree")})
    fixes = subprocess.run(["git", "-C", "/repo", "log", "--format=%h %s", "--grep=^fix:"], capture_output=True, text=True).stdout.strip().splitlines()
    man = {
        "version": 1,
        "setup_cmd": "bash /verif/setup.sh",
        "hooks": {"guard": "MOLGRI_VERIF", "enable": "no source hooks are needed: the checks import /repo's working tree directly (editable install; VERIF_REPO=<dir> selects another tree) and reach every seam (transitions.eigs, numpy global RNG, stdout) from outside; run_check.py sets MOLGRI_VERIF=1 only as a marker",
                  "baseline_off_cmd": "cd /repo && /venv/bin/python -m pytest -ra -q -p no:cacheprovider --timeout=900 --continue-on-collection-errors",
                  "source_commits": [], "add_only": True},
        "engines": [{"name": "molgri-mc", "path": "/verif/run_check.py", "serves_properties": sorted(CHECKS),
                     "kind_free_text": "hand-written bounded-exhaustive explorer for Python: explicit-state BFS over operation histories (mc/explorer.py) and exhaustive input/configuration enumeration against independent reference models (checks/*.py), executed on the real molgri code"}],
        "checks": checks,
        "not_applicable": na,
        "notes": "fix: commits in /repo (genuine defects found by the checks): " + "; ".join(fixes),
    }
    with open(os.path.join(VERIF, "MANIFEST.json"), "w") as f:
        json.dump(man, f, indent=1)
    schema = "/root/.vp/MANIFEST.schema.json"
    if os.path.exists(schema):
        r = subprocess.run(["python3-vt", "-c", "import json,sys,jsonschema;jsonschema.Draft202012Validator(json.load(open(sys.argv[1]))).validate(json.load(open(sys.argv[2])))", schema, os.path.join(VERIF, "MANIFEST.json")], capture_output=True, text=True)
        print("manifest valid" if r.returncode == 0 else r.stderr[-800:])
if __name__ == "__main__":
    main()

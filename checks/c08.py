"""C08 -- grids and their geometry are reproducible, prefix-stable and history-independent.

Shape A (the central history exploration).  Events: create(spec), get(spec, getter) on the most recent object of that
spec, reseed(k) / draw on numpy's GLOBAL generator, divide(spec) on the polytope behind an object.  BFS over all histories
up to the depth bound; a state is the digest of every mutable field of every live object plus the RNG state.
Oracle: a reference table of sha256 digests computed in FRESH SUBPROCESSES (three PYTHONHASHSEED values, first call on a
fresh object).  Every observation in every history must equal the table bit for bit.
Shape B inside: create(alg, N) == first N rows of create(alg, Nmax) for every N <= Nmax, bitwise.
"""
from __future__ import annotations

import hashlib
import json
import os
import subprocess
import sys
import tempfile

import numpy as np

from mc.core import Report, viol, collect_samples, HarnessError, Isolated
from mc import explorer

from molgri.space.rotobj import SphereGridFactory

PROPERTY = "C08"
SPECS_Q = ["ico_7", "ico_13", "cube3D_9", "cube3D_27", "randomS_6", "cube4D_5", "cube4D_9", "randomQ_6"]
GETTERS = ["array", "volumes", "volumes_approx", "prefactors", "adjacency", "borders", "distances", "full_array", "hulls", "pos_adjacency", "pos_borders",
           "pos_distances"]
START_SEED = 424242
_TABLE = None


def sha(*parts) -> str:
    h = hashlib.sha256()
    for p in parts:
        h.update(p if isinstance(p, bytes) else str(p).encode())
    return h.hexdigest()[:20]


def dim_of(alg):
    return 4 if alg in ("cube4D", "randomQ", "fulldiv", "zero4D") else 3


def create(spec):
    if spec.startswith("FG|"):
        from molgri.space.fullgrid import FullGrid
        _, b, o, t, cart = spec.split("|")
        return FullGrid(b, o, t, factor=2, position_grid_cartesian=(cart == "cart"))
    alg, N = spec.rsplit("_", 1)
    return SphereGridFactory.create(alg_name=alg, N=int(N), dimensions=dim_of(alg))


def observe_hulls(sv) -> str:
    """per-cell convex hulls of the cell model (public helper used by plots and by the 4-D volumes)"""
    try:
        hs = sv.get_convex_hulls()
    except Exception as e:
        return "raises:" + type(e).__name__
    return sha(len(hs), *[np.ascontiguousarray(h.points).tobytes() + np.float64(h.area).tobytes() for h in hs])


def observe_fg(fg, getter) -> str:
    if getter == "hulls":
        return observe_hulls(fg.b_rotations.get_spherical_voronoi())
    if getter.startswith("pos_"):        # the position grid's own getters (the full-grid getters are composed from them)
        pg = fg.get_position_grid()
        m = {"pos_adjacency": pg.get_adjacency_of_position_grid, "pos_borders": pg.get_borders_of_position_grid,
             "pos_distances": pg.get_distances_of_position_grid}[getter]().tocoo()
        return sha(m.row.tobytes(), m.col.tobytes(), np.asarray(m.data).tobytes(), m.shape)
    if getter == "prefactors":
        m = fg.get_full_prefactors().tocoo()
        return sha(m.row.tobytes(), m.col.tobytes(), np.asarray(m.data).tobytes(), m.shape)
    if getter in ("array", "full_array"):
        a = np.asarray(fg.get_full_grid_as_array() if getter == "array" else fg.get_position_grid().get_position_grid_as_array())
        return sha(np.ascontiguousarray(a).tobytes(), a.shape)
    if getter in ("volumes", "volumes_approx"):
        a = np.asarray(fg.get_total_volumes())
        return sha(np.ascontiguousarray(a).tobytes(), a.shape)
    m = {"adjacency": fg.get_full_adjacency, "borders": fg.get_full_borders, "distances": fg.get_full_distances}[getter]().tocoo()
    return sha(m.row.tobytes(), m.col.tobytes(), np.asarray(m.data).tobytes(), m.shape)


def observe(obj, getter) -> str:
    if not hasattr(obj, "dimensions") or type(obj).__name__ == "FullGrid":
        try:
            return observe_fg(obj, getter)
        except Exception as e:          # e.g. prefactors of a grid with unbounded cells (F6): the outcome is the exception
            return "raises:" + type(e).__name__
    d = obj.dimensions
    if getter == "hulls":
        return observe_hulls(obj.get_spherical_voronoi())
    if getter == "array":
        a = obj.get_grid_as_array()
        return sha(np.ascontiguousarray(a).tobytes(), a.shape)
    if getter == "full_array":
        a = obj.get_grid_as_array(only_upper=False)
        return sha(np.ascontiguousarray(a).tobytes(), a.shape)
    if getter == "volumes":
        a = np.asarray(obj.get_spherical_voronoi().get_voronoi_volumes())
        return sha(np.ascontiguousarray(a).tobytes(), a.shape)
    if getter.startswith("pos_"):       # sphere grid: the same matrices as the plain getters
        getter = getter[4:]
    if getter == "prefactors":          # only FullGrid objects have prefactors; for a sphere grid: its coordinates again
        getter = "array"
        a = obj.get_grid_as_array()
        return sha(np.ascontiguousarray(a).tobytes(), a.shape)
    if getter == "volumes_approx":
        a = np.asarray(obj.get_spherical_voronoi().get_voronoi_volumes(approx=True))
        return sha(np.ascontiguousarray(a).tobytes(), a.shape)
    f = {"adjacency": obj.get_voronoi_adjacency, "borders": obj.get_cell_borders, "distances": obj.get_center_distances}[getter]
    m = f().tocoo()
    return sha(m.row.tobytes(), m.col.tobytes(), np.asarray(m.data).tobytes(), m.shape)


def obj_digest(obj) -> str:
    if type(obj).__name__ == "FullGrid":
        return sha(obj_digest(obj.b_rotations), obj_digest(obj.get_position_grid().get_o_grid()), obj.factor)
    parts = [type(obj).__name__, obj.N, np.ascontiguousarray(obj.grid).tobytes() if obj.grid is not None else b""]
    sv = obj.spherical_voronoi
    parts.append(type(sv).__name__)
    for v in (sv, getattr(sv, "full_voronoi", None)):
        if v is not None:
            ap = getattr(v, "additional_points", None)
            parts.append(b"none" if ap is None else np.ascontiguousarray(ap).tobytes())
    p = obj.polytope
    if p is not None:
        parts += [p.G.number_of_nodes(), p.current_level, p.current_max_ci,
                  -1 if p.current_nodes[0] is None else p.current_nodes[1]]
    return sha(*parts)


def rng_digest() -> str:
    st = np.random.get_state()
    return sha(st[1].tobytes(), st[2], st[3], st[4])


# ---------------------------------------------------------------------------------------------- reference table
def ref_main(out_path, specs, getters=None):
    """runs in a fresh subprocess: first call of every getter on a fresh object"""
    devnull = os.open(os.devnull, os.O_WRONLY)
    os.dup2(devnull, 1)
    table = {}
    for spec in specs:
        table[spec] = {}
        for g in (getters or GETTERS):
            table[spec][g] = observe(create(spec), g)
    with open(out_path, "w") as f:
        json.dump(table, f)


def build_table(specs, hash_seeds=(0, 1, 4242), getters=None):
    verif = os.path.dirname(os.path.dirname(os.path.abspath(__file__)))
    repo = os.environ.get("VERIF_REPO", "/repo")
    procs = []
    tmpd = tempfile.mkdtemp(prefix="verif_c08_")
    try:
        chunks = [specs[i::3] for i in range(3)]
        for hs in hash_seeds:
            for ci, chunk in enumerate(chunks):
                if not chunk:
                    continue
                out = os.path.join(tmpd, f"t_{hs}_{ci}.json")
                code = (f"import sys; sys.path[:0]=[{repo!r}, {verif!r}]; import warnings; warnings.filterwarnings('ignore'); "
                        f"from checks import c08; c08.ref_main({out!r}, {chunk!r}, {list(getters) if getters else None!r})")
                env = dict(os.environ, PYTHONHASHSEED=str(hs))
                procs.append((hs, out, subprocess.Popen([sys.executable, "-c", code], env=env, stdout=subprocess.DEVNULL,
                                                        stderr=subprocess.PIPE)))
        tables = {}
        for hs, out, p in procs:
            _, err = p.communicate(timeout=1800)
            if p.returncode != 0:
                raise HarnessError(f"reference subprocess failed: {err.decode()[-800:]}")
            tables.setdefault(hs, {}).update(json.load(open(out)))
        return tables
    finally:
        import shutil
        shutil.rmtree(tmpd, ignore_errors=True)


# ---------------------------------------------------------------------------------------------- the explored system
class GridSystem:
    MUTATING = True

    def __init__(self, specs, table):
        self.specs = specs
        self.table = table

    def initial(self):
        np.random.seed(START_SEED)
        return {"hist": [], "objs": {}, "order": []}

    def events(self, st):
        ev = [{"op": "create", "spec": s} for s in self.specs]
        for s in st["order"]:
            for g in GETTERS:
                ev.append({"op": "get", "spec": s, "getter": g})
        ev += [{"op": "reseed", "k": 0}, {"op": "reseed", "k": 12345}, {"op": "draw"}]
        for s in st["order"]:
            if getattr(st["objs"][s], "polytope", None) is not None:
                ev.append({"op": "divide", "spec": s})
                if st["objs"][s].dimensions == 3 and st["objs"][s].N <= 30:
                    ev.append({"op": "divide", "spec": s, "times": 2})      # two subdivisions with no read in between
        return ev

    def terminal(self, st):
        return False

    def canon(self, st):
        return sha(rng_digest(), *[s + obj_digest(st["objs"][s]) for s in sorted(st["objs"])])

    def observe(self, st):
        return st.get("last_obs")

    def apply(self, st, ev):
        hist = st["hist"] + [ev]
        case = {"history": hist}
        hs = hstr(hist)
        vs = []
        new = {"hist": hist, "objs": st["objs"], "order": list(st["order"]), "last_obs": None}
        try:
            if ev["op"] == "create":
                obj = create(ev["spec"])
                new["objs"] = dict(st["objs"])
                new["objs"][ev["spec"]] = obj
                if ev["spec"] not in new["order"]:
                    new["order"].append(ev["spec"])
                obs, want = observe(obj, "array"), self.table[ev["spec"]]["array"]
                if obs != want:
                    vs.append(viol(f"C08|hist={hs}|create", f"coordinates of {ev['spec']} differ from a fresh process after "
                                   "this history", case, expected=want, observed=obs))
                new["last_obs"] = obs
            elif ev["op"] == "get":
                obj = st["objs"][ev["spec"]]
                obs, want = observe(obj, ev["getter"]), self.table[ev["spec"]][ev["getter"]]
                if obs != want:
                    vs.append(viol(f"C08|hist={hs}|get", f"{ev['getter']} of {ev['spec']} differs from the first call on a "
                                   "fresh object in a fresh process", case, expected=want, observed=obs))
                new["last_obs"] = obs
            elif ev["op"] == "reseed":
                np.random.seed(ev["k"])
            elif ev["op"] == "draw":
                np.random.random()
            elif ev["op"] == "divide":
                obj = st["objs"][ev["spec"]]
                for _ in range(ev.get("times", 1)):
                    obj.polytope.divide_edges()
                if obj.dimensions == 3:
                    a = obj.polytope.get_nodes(N=obj.N, projection=True)
                    # all nodes, asked after the first-N request: one row per node, starting with the first N
                    alln = np.asarray(obj.polytope.get_nodes(projection=True))
                    if len(alln) != obj.polytope.G.number_of_nodes() or not np.array_equal(alln[:obj.N], a) or \
                            len(np.unique(np.round(alln, 9), axis=0)) != len(alln):
                        vs.append(viol(f"C08|hist={hs}|divide_all_nodes", f"after a further subdivision of {ev['spec']} the complete "
                                       "node array is not one row per node starting with the first N", case,
                                       expected=obj.polytope.G.number_of_nodes(), observed=len(alln)))
                else:
                    a = obj.polytope.get_half_of_hypercube(N=obj.N, projection=True)
                    # a larger request after the N-limited one, at the same level: the complete half selection
                    full = obj.polytope.get_half_of_hypercube(projection=True)
                    if 2 * len(full) != obj.polytope.G.number_of_nodes() or not np.array_equal(full[:obj.N], a):
                        vs.append(viol(f"C08|hist={hs}|divide_full_half", f"after a further subdivision of {ev['spec']} the complete "
                                       "half selection (asked after the first-N one) is not half of the nodes / does not start "
                                       "with the first N", case, expected=obj.polytope.G.number_of_nodes() // 2, observed=len(full)))
                obs = sha(np.ascontiguousarray(a).tobytes(), a.shape)
                want = self.table[ev["spec"]]["array"]
                if obs != want:
                    vs.append(viol(f"C08|hist={hs}|divide", f"after a further subdivision the first N nodes of {ev['spec']} "
                                   "changed (prefix stability / stale node cache)", case, expected=want, observed=obs))
                new["last_obs"] = obs
        except Exception as e:
            vs.append(viol(f"C08|hist={hs}|raises", f"{type(e).__name__}: {str(e)[:120]}", case))
        return new, vs

    def apply_quiet(self, st, ev):
        return self.apply(st, ev)


def hstr(hist):
    out = []
    for e in hist:
        if e["op"] == "create":
            out.append(f"c:{e['spec']}")
        elif e["op"] == "get":
            out.append(f"g:{e['spec']}.{e['getter']}")
        elif e["op"] == "reseed":
            out.append(f"seed{e['k']}")
        elif e["op"] == "divide":
            out.append(f"div{'2' if e.get('times') == 2 else ''}:{e['spec']}")
        else:
            out.append("draw")
    return ">".join(out)


# ---------------------------------------------------------------------------------------------- prefix claim
def prefix_case(case):
    alg, nmax = case["alg"], case["Nmax"]
    d = dim_of(alg)
    np.random.seed(case.get("pre_seed", 5))
    big = np.asarray(SphereGridFactory.create(alg, nmax, d).get_grid_as_array(), dtype=float)
    vs = []
    digs = {}
    for N in range(1, nmax + 1):
        if case.get("only"):
            if N not in case["only"]:
                continue
        elif case.get("stride") and N % case["stride"] != case.get("phase", 0):
            continue
        np.random.seed(N)   # arbitrary, different global RNG state before every construction
        np.random.random(N % 7)
        a = np.asarray(SphereGridFactory.create(alg, N, d).get_grid_as_array(), dtype=float)
        digs[N] = sha(a.tobytes())
        if a.shape != (N, d) or not np.array_equal(a, big[:N]):
            vs.append(viol(f"C08|prefix|{alg}|N={N}|Nmax={nmax}", f"{alg}_{N} is not bit-identical to the first {N} rows of "
                           f"{alg}_{nmax}", case, observed=list(a.shape)))
            if len(vs) >= 3:
                break
    return {"violations": vs, "n": len(digs), "digs": digs}


def run(ctx):
    global _TABLE
    rep = Report(PROPERTY, "model_checking")
    specs = SPECS_Q if not ctx.thorough else SPECS_Q + ["ico_43", "cube4D_17", "randomS_20", "randomQ_12"]
    FGS = ["FG|cube4D_5|ico_7|[0.1,0.2]|shell", "FG|cube4D_5|ico_7|[0.1,0.2]|cart",
           "FG|randomQ_6|cube3D_9|[0.2,0.3,0.45]|cart", "FG|randomQ_6|cube3D_9|[0.2,0.3,0.45]|shell"]
    # a single-position full grid (the rotation matrices are handed out without a copy there) and a Cartesian grid with
    # unbounded cells (their documented volume is 0.0 - not whatever the memory held)
    FGS2 = ["FG|cube4D_6|1|0.3|shell", "FG|1|ico_4|[0.1,0.2]|cart"]
    specs = specs + FGS + FGS2
    tables = build_table(specs)
    # grids whose rows come from deeper subdivision levels: coordinates only, compared across fresh processes started with
    # different PYTHONHASHSEED values (row order must not depend on set/dict iteration order)
    deep_specs = ["ico_50", "ico_170", "cube3D_30", "cube3D_120", "cube4D_12", "cube4D_45"] + \
                 (["ico_650", "cube3D_400"] if ctx.thorough else [])
    atab = build_table(deep_specs, hash_seeds=(0, 1, 2, 4242), getters=("array", "adjacency"))
    base_h = sorted(atab)[0]
    for h in sorted(atab)[1:]:
        for sp in deep_specs:
            for g in atab[base_h][sp]:
                if atab[h][sp][g] != atab[base_h][sp][g]:
                    rep.add_violations([viol(f"C08|crossprocess|{sp}|{g}|hashseed={h}", f"{g} of {sp} differs between fresh "
                                             f"processes (PYTHONHASHSEED {base_h} vs {h})", {"spec": sp, "getter": g, "hashseed": h},
                                             expected=atab[base_h][sp][g], observed=atab[h][sp][g])])
    hs = sorted(tables)
    ref = tables[hs[0]]
    for h in hs[1:]:
        for s in specs:
            for g in GETTERS:
                if tables[h][s][g] != ref[s][g]:
                    rep.add_violations([viol(f"C08|crossprocess|{s}|{g}|hashseed={h}", f"{g} of {s} differs between fresh "
                                             f"processes (PYTHONHASHSEED {hs[0]} vs {h})", {"spec": s, "getter": g,
                                                                                            "hashseed": h},
                                             expected=ref[s][g], observed=tables[h][s][g])])
    ctx.log(f"  C08 reference table: {len(specs)} specs x {len(GETTERS)} getters x {len(hs)} fresh processes "
            f"t={__import__('time').time()-ctx.t0:.0f}s")
    depth = 3 if ctx.thorough else 2
    sysm = GridSystem(SPECS_Q if not ctx.thorough else SPECS_Q[:8], ref)
    r = explorer.bfs(ctx, sysm, depth=depth, max_states=None, isolate=True)
    rep.add_violations(r["violations"])
    ctx.log(f"  C08 bfs depth={depth}: states={r['states']} transitions={r['transitions']} t={__import__('time').time()-ctx.t0:.0f}s")
    # selected deeper histories: create, ALL getters in two different orders with RNG events in between, re-create
    deep = []
    for s in specs:
        for order in (GETTERS, GETTERS[::-1], ["volumes", "volumes", "borders", "adjacency", "volumes", "distances"]):
            h = [{"op": "create", "spec": s}]
            for i, g in enumerate(order):
                h.append({"op": "get", "spec": s, "getter": g})
                if i % 2 == 0:
                    h.append({"op": "draw"} if i % 4 == 0 else {"op": "reseed", "k": 12345})
            h.append({"op": "create", "spec": s})
            h += [{"op": "get", "spec": s, "getter": g} for g in order[:3]]
            deep.append({"history": h, "specs": specs})
    # cross histories: two objects that share part of their specification live in ONE process (module-level registries,
    # class-level caches): build A, build B, then read every getter of B and of A
    import itertools as _it
    pairs = [(FGS[0], FGS[1]), (FGS[1], FGS[0]), (FGS[2], FGS[3]), (FGS[3], FGS[2]), ("cube4D_5", "cube4D_9"),
             ("cube4D_9", "cube4D_5"), ("randomQ_6", "cube4D_5"), ("ico_7", "ico_13"), ("ico_13", "ico_7"),
             ("cube4D_5", FGS[0]), (FGS[0], "cube4D_5"), ("randomS_6", "randomQ_6"), ("randomQ_6", "randomS_6")]
    for a, b in pairs:
        for seed_between in (False, True):
            h = [{"op": "create", "spec": a}]
            if seed_between:
                h.append({"op": "reseed", "k": 12345})
            h.append({"op": "create", "spec": b})
            if seed_between:
                h.append({"op": "draw"})
            h += [{"op": "get", "spec": b, "getter": g} for g in ("volumes", "borders", "distances", "adjacency", "array")]
            h += [{"op": "get", "spec": a, "getter": g} for g in ("volumes", "borders", "distances")]
            deep.append({"history": h, "specs": specs})
    global _DEEP_TABLE
    _DEEP_TABLE = ref
    dres = ctx.pmap(Isolated(deep_case), deep, chunksize=1, recheck=2)
    for x in dres:
        rep.add_violations(x["violations"])
    # prefix claim
    if ctx.thorough:
        pc = [{"alg": a, "Nmax": 200} for a in ("ico", "cube3D")] + [{"alg": a, "Nmax": 80} for a in ("cube4D",)] + \
             [{"alg": "ico", "Nmax": 700, "stride": 23, "phase": 1}, {"alg": "cube3D", "Nmax": 400, "stride": 17, "phase": 2}]
    else:
        pc = [{"alg": a, "Nmax": 64} for a in ("ico", "cube3D")] + [{"alg": "cube4D", "Nmax": 24},
                                                                    {"alg": "ico", "Nmax": 170, "stride": 13, "phase": 1},
                                                                    {"alg": "cube3D", "Nmax": 110, "stride": 11, "phase": 0}]
    # split long prefix sweeps so that they parallelise
    pcs = [{"alg": "fulldiv", "Nmax": 272, "only": [8, 40, 272]}]      # fulldiv exists for complete subdivisions only
    for c in pc:
        if "stride" in c:
            pcs.append(c)
        else:
            for ph in range(4):
                pcs.append(dict(c, stride=4, phase=ph))
    pres = ctx.pmap(Isolated(prefix_case), pcs, chunksize=1, recheck=1)
    for x in pres:
        rep.add_violations(x["violations"])
    nprefix = sum(x["n"] for x in pres)
    rep.coverage = {
        "states": r["states"], "transitions": r["transitions"] + sum(len(d["history"]) for d in deep),
        "traces_validated_against_impl": r["transitions"] + len(deep),
        "samples": [hstr(h) for h in r["samples"][:4]] + [hstr(deep[0]["history"])],
        "evaluations": r["transitions"] + nprefix, "distinct_nontrivial": r["states"],
        "distinct_observations": r["distinct_observations"],
        "reference_table_entries": len(specs) * len(GETTERS), "fresh_processes": len(hs),
        "prefix_pairs_checked": nprefix,
        "rule": "BFS over histories of create/get/reseed/draw/divide events on live grid objects; states = distinct digests "
                "of (all mutable object fields, global RNG state); every observation compared bitwise with a table from "
                "fresh subprocesses under 3 hash seeds; plus long getter-order histories per spec and the prefix claim "
                "for every N <= Nmax",
        "bound": {"depth": depth, "specs": specs, "events_per_state_max": 8 + 6 * depth + 3 + depth},
        "exhaustive": not r["capped"],
    }
    rep.assumptions = ["initial global RNG state is fixed by the harness (seed 424242) and then varied by reseed/draw events",
                       "Qhull's joggle seed is constant (verified by this exploration: repeated volumes are identical)"]
    return rep


_DEEP_TABLE = None


def deep_case(case):
    table = _DEEP_TABLE
    if table is None:
        table = build_table(sorted({e["spec"] for e in case["history"] if "spec" in e}), hash_seeds=(0,))[0]
    sysm = GridSystem([], table)
    st = sysm.initial()
    vs = []
    for ev in case["history"]:
        st, v = sysm.apply(st, ev)
        vs.extend(v)
    return {"violations": vs}


def replay(case):
    if "history" in case:
        return deep_case({"history": case["history"]})["violations"]
    if "alg" in case:
        return prefix_case(case)["violations"]
    t = build_table([case["spec"]], hash_seeds=(0, case["hashseed"]), getters=(case["getter"],))
    if t[0][case["spec"]][case["getter"]] != t[case["hashseed"]][case["spec"]][case["getter"]]:
        return [viol(f"C08|crossprocess|{case['spec']}|{case['getter']}|hashseed={case['hashseed']}", "differs", case)]
    return []

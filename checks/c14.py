"""C14 -- saved grid geometry gives a rate matrix stationary at Boltzmann x volume.

Shape B, end to end through the file system: GridWriter -> files -> GridReader -> SQRA.get_rate_matrix ->
DecompositionTool.get_decomposition, over grid combinations x modes x factors x energy landscapes x temperatures x solver
settings x ARPACK start vectors (the start vector is an *enumerated environment answer*: the seam
molgri.molecules.transitions.eigs is wrapped to pass v0 from a private PCG64 stream).
"""
from __future__ import annotations

import os
import shutil
import tempfile

import numpy as np
from scipy.constants import k as kB, N_A

from mc.core import Report, viol, collect_samples

import molgri.molecules.transitions as mtr
from molgri.io import GridWriter, GridReader
from molgri.molecules.transitions import SQRA, DecompositionTool

PROPERTY = "C14"
R_GAS = kB * N_A
_REAL_EIGS = mtr.eigs
# (which, sigma, tol): tol 1e-5 is the tolerance the shipped workflow configuration passes, 1e-10 a tight one
SETTINGS = [("LR", None, 1e-10), ("LR", None, 1e-5), ("LM", 0.37, 1e-10), ("LM", 0.37, 1e-5), ("SR", 0.01, 1e-10),
            ("LM", 1e-3, 1e-10), ("SM", None, 1e-10)]


def energies(arr, kind):
    x, y, z = arr[:, 0], arr[:, 1], arr[:, 2]
    q = arr[:, 3:]
    if kind == "smooth":
        return 4.0 * np.sin(0.3 * x + 0.1) + 3.0 * np.cos(0.5 * y + 0.2 * z) + 2.5 * q[:, 0] - 1.5 * q[:, 2] * q[:, 1]
    if kind == "deepwell":   # neighbour differences of several hundred kJ/mol, still below the 500 cap
        E = 0.3 * np.cos(0.4 * x + 0.7 * y) + 0.2 * q[:, 3]
        E = E.copy()
        E[len(E) // 3] -= 430.0
        E[(2 * len(E)) // 3] += 60.0
        return E
    if kind == "ramp":       # steady climb: total span far above 500 kJ/mol while most neighbour steps stay below the cap
        return 110.0 * x + 3.0 * np.cos(0.5 * y + 0.2 * z) + 2.5 * q[:, 0]
    if kind.startswith("two_basin"):  # a high barrier on the middle shell: metastable, second eigenvalue within ~1e-9 of zero
        rr = np.round(np.linalg.norm(arr[:, :3], axis=1), 6)
        shells = np.unique(rr)
        # generic (symmetry-breaking) background as in "smooth", plus the barrier; without a middle shell: no such landscape
        E = 2.0 * np.sin(0.3 * x + 0.1) + 1.5 * np.cos(0.5 * y + 0.2 * z) + 1.2 * q[:, 0] - 0.7 * q[:, 2] * q[:, 1]
        if len(shells) < 3:
            return None
        return E + np.where(rr == shells[len(shells) // 2], float(kind[len("two_basin"):] or 74.0), 0.0)
    if kind == "int":        # whole-number energies handed over with an integer dtype
        return np.round(4.0 * np.sin(0.3 * x + 0.1) + 3.0 * np.cos(0.5 * y + 0.2 * z) + 2.5 * q[:, 0]).astype(np.int64)
    if kind == "offset":     # absolute (quantum-chemistry style) energies: small differences on a huge common offset
        return -400000.0 + 4.0 * np.sin(0.3 * x + 0.1) + 3.0 * np.cos(0.5 * y + 0.2 * z) + 2.5 * q[:, 0]
    if kind == "offset_pos":
        return 3700.0 + 2.0 * np.sin(0.3 * x + 0.1) + 1.5 * np.cos(0.5 * y + 0.2 * z)
    E = 0.3 * np.cos(0.4 * x + 0.7 * y) + 0.2 * q[:, 3]
    E = E.copy()
    E[len(E) // 3] -= 40.0
    return E


def run_case(case):
    b, o, t, cart, f = case["b"], case["o"], case["t"], case["cartesian"], case["f"]
    gkey = f"b={b}|o={o}|t={t}|cart={cart}|f={f}"
    vs = []
    d = tempfile.mkdtemp(prefix="verif_c14_")
    stats = {"rate_matrices": 0, "decompositions": 0, "n": 0}
    try:
        try:
            gw = GridWriter(b, o, t, factor=f, position_grid_cartesian=cart)
            P = {k: os.path.join(d, k + e) for k, e in (("array", ".npy"), ("volumes", ".npy"), ("borders", ".npz"),
                                                        ("distances", ".npz"), ("adjacency", ".npz"))}
            gw.save_full_grid(P["array"]); gw.save_volumes(P["volumes"]); gw.save_borders_array(P["borders"])
            gw.save_distances_array(P["distances"]); gw.save_adjacency_array(P["adjacency"])
            gr = GridReader()
            arr, V = gr.load_full_grid(P["array"]), np.asarray(gr.load_volumes(P["volumes"]), dtype=float)
            S, H, A = gr.load_borders_array(P["borders"]), gr.load_distances_array(P["distances"]), \
                gr.load_adjacency_array(P["adjacency"])
        except Exception as e:
            return {"violations": [viol(f"C14|{gkey}|io_raises", f"writer/reader raised {type(e).__name__}: {str(e)[:120]}",
                                        case)], "stats": stats}
        n = len(arr)
        stats["n"] = n
        open_cells = bool(np.any(V <= 0))
        pre = f"C14|open_cell|o={o}|{gkey}" if open_cells else f"C14|{gkey}"
        Ad = np.asarray(A.toarray()) != 0
        for ek in case["energies"]:
            E = energies(arr, ek)
            if E is None:
                continue
            for T in case["Ts"]:
                tag = f"|E={ek}|T={T}"
                try:
                    Q = SQRA(energies=E, volumes=V, distances=H, surfaces=S).get_rate_matrix(D=1.0, T=T)
                except Exception as e:
                    vs.append(viol(pre + tag + "|rate_raises", f"get_rate_matrix raised {type(e).__name__}: {str(e)[:120]}",
                                   case))
                    continue
                stats["rate_matrices"] += 1
                Qd = np.asarray(Q.toarray(), dtype=float)
                off = ~np.eye(n, dtype=bool)
                if not np.array_equal((Qd != 0) & off, Ad & off):
                    i, j = np.argwhere(((Qd != 0) & off) != (Ad & off))[0].tolist()
                    vs.append(viol(pre + tag + "|pattern", f"off-diagonal pattern of the rate matrix is not the saved "
                                   f"adjacency, e.g. ({i},{j})", case))
                if not np.all(np.isfinite(Qd)):
                    vs.append(viol(pre + tag + "|nonfinite", "rate matrix has non-finite entries", case))
                    continue
                logpi = np.log(np.where(V > 0, V, 1.0)) - np.asarray(E, dtype=float) * 1000 / (R_GAS * T)
                pi = np.exp(logpi - logpi.max())
                F = pi[:, None] * Qd
                scale = np.maximum(np.abs(F), np.abs(F.T))
                Ef = np.asarray(E, dtype=float)
                below_cap = np.abs(Ef[:, None] - Ef[None, :]) < 500.0       # the statement excludes pairs beyond the cap
                bad = (np.abs(F - F.T) > 1e-9 * np.maximum(scale, 1e-300)) & off & below_cap
                if bad.any() and not open_cells:
                    i, j = np.argwhere(bad)[0].tolist()
                    rel = float(np.abs(F - F.T)[i, j] / scale[i, j])
                    vs.append(viol(pre + tag + "|detailed_balance", f"{int(bad.sum()) // 2} pairs violate detailed balance "
                                   f"w.r.t. V exp(-E/RT); first ({i},{j}) rel. error {rel:.2e}", case, observed=rel))
                    continue
                if open_cells:
                    vs.append(viol(pre + tag + "|volumes_zero", "saved volumes contain zeros (unbounded cells): the rate "
                                   "matrix is not defined", case))
                    continue
                # spectral decomposition (one temperature)
                if not case.get("decompose") or n < 15 or T != case["Ts"][0] or ek.startswith("offset") or ek in ("int", "deepwell", "ramp"):
                    continue
                dense_ev = np.linalg.eigvals(Qd)
                if np.abs(dense_ev.imag).max() > 1e-8 * np.abs(dense_ev).max():
                    continue
                dense_sorted = np.sort(dense_ev.real)[::-1]
                normQ = np.abs(dense_sorted).max()
                if dense_sorted[0] - dense_sorted[1] < 1e-15 * normQ:
                    continue   # zero eigenvalue not simple: grid not connected, outside the statement
                # metastable case: zero is simple but nearly degenerate -> only order and values are asserted
                near_degenerate = dense_sorted[0] - dense_sorted[1] < 1e-7 * normQ
                mid = 0.5 * (dense_sorted[2] + dense_sorted[3])     # a negative shift strictly inside the spectrum
                for which, sigma, tol in ([tuple(x) for x in case["settings"]] if case.get("settings") else
                                          SETTINGS + [("LM", "mid34", 1e-10)] if not ek.startswith("two_basin") else
                                          [("LR", None, 1e-10), ("LM", 0.01, 1e-10), ("SR", 0.01, 1e-10)]):
                    if sigma == "mid34":
                        if min(abs(mid - dense_sorted)) < 1e-3 * abs(mid):
                            continue                                 # too close to an eigenvalue: outside the statement
                        sigma = float(mid)
                        near = np.sort(dense_sorted[np.argsort(np.abs(dense_sorted - sigma))])[::-1]
                    else:
                        near = None
                    for k in case["ks"]:
                        if n < k + 3:
                            continue
                        if near is not None:
                            order_k = np.argsort(np.abs(dense_sorted - sigma), kind="stable")[:k + 1]
                            dk = np.abs(dense_sorted - sigma)[order_k]
                            if dk[k] - dk[k - 1] < 1e-6 * normQ or 0 not in order_k[:k]:
                                continue                             # k-th nearest not unique, or zero not among them
                            expected_k = np.sort(dense_sorted[order_k[:k]])[::-1]
                        else:
                            expected_k = dense_sorted[:k]
                        for seed in (case["seeds"] if not ek.startswith("two_basin") else [0, 1, 2, 3, 4, 5]):
                            if which == "SM" and seed != case["seeds"][0]:
                                continue          # unshifted smallest-magnitude mode converges slowly: one start vector
                            slabel = "mid34" if near is not None else sigma
                            dkey = (f"C14|solver|which={which}|sigma={slabel}|tol={tol:g}|k={k}|n={n}|" + pre[4:] + tag +
                                    f"|seed={seed}")
                            etol = max(1e-6, 50 * tol) * normQ
                            v0 = np.random.Generator(np.random.PCG64(1000 + seed)).standard_normal(n)

                            def wrapped(Aop, **kw):
                                kw["v0"] = v0
                                return _REAL_EIGS(Aop, **kw)
                            mtr.eigs = wrapped
                            try:
                                ev, evec = DecompositionTool(Q).get_decomposition(tol=tol, maxiter=20000, which=which,
                                                                                  sigma=sigma, k=k)
                            except Exception as e:
                                if type(e).__name__ in ("ArpackNoConvergence", "ArpackError"):
                                    # the solver explicitly reports that it has no answer (no convergence within maxiter, or ARPACK error 3
                                    # 'no shifts could be applied' on tiny metastable generators): no verdict
                                    stats["no_convergence"] = stats.get("no_convergence", 0) + 1
                                    continue
                                vs.append(viol(dkey + "|raises", f"decomposition raised {type(e).__name__}: {str(e)[:100]}",
                                               case))
                                continue
                            finally:
                                mtr.eigs = _REAL_EIGS
                            stats["decompositions"] += 1
                            ev = np.asarray(ev)
                            if np.iscomplexobj(ev) or np.iscomplexobj(evec):
                                vs.append(viol(dkey + "|complex", "eigenvalues/eigenvectors are not real", case))
                                continue
                            if np.any(np.diff(ev) > 0):
                                vs.append(viol(dkey + "|order", "eigenvalues are not sorted in descending order", case,
                                               observed=ev.tolist()))
                            if np.abs(ev - expected_k).max() > etol:
                                if near is None and n > k + 1 and np.abs(ev - dense_sorted[1:k + 1]).max() <= etol:
                                    zkey = (f"C14|solver|zero_eigenvalue_skipped|which={which}|sigma={sigma}|tol={tol:g}|k={k}|"
                                            f"n={n}|" + pre[4:] + tag + f"|seed={seed}")
                                    vs.append(viol(zkey, "the solver returns eigenvalues 2..k+1: the zero eigenvalue (stationary "
                                                   "state) is skipped", case, expected=dense_sorted[:k].tolist(),
                                                   observed=ev.tolist()))
                                else:
                                    vs.append(viol(dkey + "|eigenvalues", "eigenvalues differ from those of a dense solver (the k "
                                                   "largest, or the k nearest to an interior shift)",
                                                   case, expected=expected_k.tolist(), observed=ev.tolist()))
                                continue
                            if abs(ev[0]) > etol:
                                vs.append(viol(dkey + "|zero", "largest eigenvalue is not zero", case, observed=float(ev[0])))
                            if tol > 1e-8 or near_degenerate:
                                continue      # eigenvector accuracy is only asserted for the tight tolerance / clear gap
                            v = evec[:, 0]
                            v = v / v[np.argmax(np.abs(v))]
                            p = pi / pi[np.argmax(np.abs(pi))]
                            if np.abs(v / np.abs(v).sum() - p / np.abs(p).sum()).max() > 1e-6:
                                vs.append(viol(dkey + "|stationary", "first left eigenvector is not proportional to "
                                               "V exp(-E/RT)", case,
                                               observed=float(np.abs(v / np.abs(v).sum() - p / np.abs(p).sum()).max())))
        return {"violations": vs, "stats": stats}
    finally:
        mtr.eigs = _REAL_EIGS
        shutil.rmtree(d, ignore_errors=True)


def cases(tier):
    out = []
    if tier == "quick":
        bs = ["1", "cube4D_4", "cube4D_5", "cube4D_7", "randomQ_5"]
        os_ = ["ico_5", "ico_12", "cube3D_9", "randomS_8"]
    else:
        bs = ["1", "cube4D_4", "cube4D_5", "cube4D_7", "cube4D_8", "cube4D_12", "randomQ_5", "randomQ_9", "cube4D_16"]
        os_ = ["ico_5", "ico_12", "ico_13", "ico_20", "cube3D_9", "cube3D_14", "randomS_8", "randomS_15"]
    i = 0
    for b in bs:
        for o in os_:
            for t in ("[0.2,0.3]", "[0.1,0.25,0.3]"):
                for cart in (False, True):
                    for f in (1, 2):
                        i += 1
                        dec = (tier == "thorough") or (i % 4 == 0) or b == "1"       # single-rotation grids are small: always
                        out.append({"b": b, "o": o, "t": t, "cartesian": cart, "f": f,
                                    "energies": ["smooth", "well", "two_basin70", "two_basin74", "two_basin77", "offset", "offset_pos", "int", "deepwell", "ramp"], "Ts": [273.15, 310.0, 180.0],
                                    "decompose": dec,
                                    "ks": [6, 12], "seeds": [0, 1, 2]})
    # a rotation grid with a sliver face (border 8.5e-6): the saved adjacency must still contain that pair
    for o, t, cart in (("ico_5", "[0.2,0.3]", False), ("cube3D_4", "[0.1,0.25,0.3]", False)):
        out.append({"b": "randomQ_20", "o": o, "t": t, "cartesian": cart, "f": 1, "energies": ["smooth"], "Ts": [273.15],
                    "decompose": False, "ks": [6], "seeds": [0]})
    # one large grid (2250 cells): shift-invert settings on a matrix whose factorisation has substantial fill-in
    out.append({"b": "cube4D_30", "o": "ico_25", "t": "[0.1, 0.2, 0.3]", "cartesian": False, "f": 1, "energies": ["smooth"],
                "Ts": [300.0], "decompose": True, "ks": [6], "seeds": [0],
                "settings": [["LM", 0.37, 1e-10], ["SR", 0.01, 1e-10], ["LR", None, 1e-10]]})
    return out


def run(ctx):
    rep = Report(PROPERTY, "exploration")
    cs = cases(ctx.tier)
    res = ctx.pmap(run_case, sorted(cs, key=lambda c: -int(c["decompose"])), chunksize=1, recheck=2)
    for r in res:
        rep.add_violations(r["violations"])
    rm = sum(r["stats"]["rate_matrices"] for r in res)
    dc = sum(r["stats"]["decompositions"] for r in res)
    rep.coverage = {
        "evaluations": rm + dc, "distinct_nontrivial": len(cs),
        "rule": "rotation grids x direction grids x 2 radial grids x {shell, Cartesian} x f in {1,2}, written and read back "
                "through the file system; x 2 energy landscapes x 2 temperatures: detailed balance for every pair and "
                "pattern = saved adjacency; decomposition for 4 solver settings x k in {6,12} x 3 enumerated ARPACK start "
                "vectors against a dense eigen-solver; evaluations = rate matrices + decompositions",
        "samples": collect_samples([{k: c[k] for k in ("b", "o", "t", "cartesian", "f")} for c in cs], 4),
        "rate_matrices": rm, "decompositions": dc, "exhaustive": True,
        "solver_reported_no_convergence": sum(r["stats"].get("no_convergence", 0) for r in res),
        "bound": {"n_max": max(r["stats"]["n"] for r in res)},
    }
    rep.assumptions = ["ARPACK start vector enumerated over 3 fixed vectors (environment answer owned via the eigs seam)",
                       "dense numpy eigvals is the reference spectrum", "detailed balance tolerance 1e-9 relative"]
    return rep


def replay(case):
    return run_case(case)["violations"]

"""C18 -- polytope subdivision produces exactly the lattice points of the solid's surface.

Shape A: a history is a word over {divide, get} applied to a fresh polytope (get = call every node getter, which fills the
sorted-node cache).  ALL such words with at most L divisions and no repeated get are executed; after every step the node
set is compared with the ideal lattice built independently, and indices recorded earlier in the history must be unchanged.
"""
from __future__ import annotations

import itertools

import numpy as np
from scipy.spatial import cKDTree

from mc.core import Report, viol, collect_samples, digest

from molgri.space.polytopes import IcosahedronPolytope, Cube3DPolytope, Cube4DPolytope

PROPERTY = "C18"
KINDS = {"ico": IcosahedronPolytope, "cube3D": Cube3DPolytope, "cube4D": Cube4DPolytope}
PHI = (1 + 5 ** 0.5) / 2


# ---------------------------------------------------------------------------------------------- ideal lattices
def ideal_cube(dim, k):
    side = 2 * np.sqrt(1 / dim) if dim == 3 else 1.0
    m = 2 ** k
    pts = []
    for idx in itertools.product(range(m + 1), repeat=dim):
        if any(i == 0 or i == m for i in idx):
            pts.append([-side / 2 + side * i / m for i in idx])
    return np.array(pts)


def ico_vertices():
    v = []
    for s1 in (-1, 1):
        for s2 in (-1, 1):
            v += [(0, s1, s2 * PHI), (s1, s2 * PHI, 0), (s2 * PHI, 0, s1)]
    v = np.array(v, dtype=float)
    return v / np.linalg.norm(v[0])


def ideal_ico(k):
    V = ico_vertices()
    edge = min(np.linalg.norm(V[0] - V[j]) for j in range(1, 12))
    faces = [(a, b, c) for a, b, c in itertools.combinations(range(12), 3)
             if all(abs(np.linalg.norm(V[x] - V[y]) - edge) < 1e-9 for x, y in ((a, b), (b, c), (a, c)))]
    assert len(faces) == 20
    f = 2 ** k
    pts = {}
    for a, b, c in faces:
        for i in range(f + 1):
            for j in range(f + 1 - i):
                l = f - i - j
                p = (i * V[a] + j * V[b] + l * V[c]) / f
                pts[tuple(np.round(p, 9) + 0.0)] = p
    return np.array(list(pts.values()))


def ideal(kind, k):
    if kind == "ico":
        return ideal_ico(k)
    return ideal_cube(3 if kind == "cube3D" else 4, k)


# ---------------------------------------------------------------------------------------------- per-state checks
def snapshot(poly):
    nodes = list(poly.G.nodes(data=True))
    coords = np.array([n for n, _ in nodes], dtype=float)
    ci = np.array([d.get("central_index", -1) for _, d in nodes])
    lev = np.array([d.get("level", -1) for _, d in nodes])
    proj = np.array([np.asarray(d["projection"], dtype=float) for _, d in nodes])
    return coords, ci, lev, proj


def check_state(poly, kind, ndiv, record, pre, case):
    vs = []
    coords, ci, lev, proj = snapshot(poly)
    n = len(coords)
    I = ideal(kind, ndiv)
    if n != len(I):
        vs.append(viol(pre + "|count", f"{n} nodes instead of the {len(I)} lattice points", case, expected=len(I), observed=n))
    tree = cKDTree(coords)
    dist, idx = tree.query(I)
    if dist.max() > 1e-9:
        j = int(np.argmax(dist))
        vs.append(viol(pre + "|missing_point", f"lattice point {np.round(I[j], 6).tolist()} is not a node "
                       f"({int((dist > 1e-9).sum())} missing)", case, observed=float(dist.max())))
    if len(set(idx.tolist())) != len(I) and dist.max() <= 1e-9:
        vs.append(viol(pre + "|collision", "two lattice points map to one node", case))
    if n > 1:
        dd, _ = tree.query(coords, k=2)
        if dd[:, 1].min() < 1e-9:
            vs.append(viol(pre + "|duplicate", "a lattice point occurs more than once (duplicate node)", case,
                           observed=float(dd[:, 1].min())))
    extra = cKDTree(I).query(coords)[0]
    if extra.max() > 1e-9:
        j = int(np.argmax(extra))
        vs.append(viol(pre + "|extra_point", f"node {np.round(coords[j], 6).tolist()} is not a lattice point", case))
    nrm = np.linalg.norm(coords, axis=1)
    if np.abs(proj - coords / nrm[:, None]).max() > 1e-12:
        vs.append(viol(pre + "|projection", "projection is not node/|node|", case))
    if cKDTree(coords).query(-coords)[0].max() > 1e-9:
        vs.append(viol(pre + "|negation", "node set is not closed under negation", case))
    if sorted(ci.tolist()) != list(range(n)):
        vs.append(viol(pre + "|indices", "permanent indices are not 0..n-1", case))
    else:
        for l in range(int(lev.max())):
            if ci[lev == l].max() > ci[lev == l + 1].min():
                vs.append(viol(pre + "|level_order", f"an index of level {l} is above one of level {l + 1}", case))
                break
    if set(np.unique(lev).tolist()) != set(range(ndiv + 1)):
        vs.append(viol(pre + "|levels", "level attributes are not 0..number of divisions", case,
                       observed=np.unique(lev).tolist()))
    # index permanence across the history
    cur = {int(c): tuple(np.round(x, 9) + 0.0) for c, x in zip(ci, coords)}
    for c, x in record.items():
        if cur.get(c) != x:
            vs.append(viol(pre + "|permanence", f"index {c} moved to another node after a later subdivision", case,
                           expected=list(x), observed=list(cur.get(c, ()))))
            break
    record.update(cur)
    return vs, cur


def check_getters(poly, kind, cur, pre, case):
    """getters must agree with the graph attributes (they go through the node-count keyed cache)."""
    vs = []
    n = len(cur)
    for projection in (False, True):
        arr = np.asarray(poly.get_nodes(projection=projection), dtype=float)
        want = np.array([cur[i] for i in range(n)])
        if projection:
            want = want / np.linalg.norm(want, axis=1)[:, None]
        if arr.shape != want.shape or np.abs(arr - want).max() > 1e-8:
            vs.append(viol(pre + f"|get_nodes|projection={projection}", "get_nodes is not the node list in index order "
                           "(stale cache?)", case, expected=list(want.shape), observed=list(arr.shape)))
            continue
        for N in sorted({0, 1, 2, n // 3, n // 2, n - 1, n}):
            sub = np.asarray(poly.get_nodes(N=N, projection=projection), dtype=float)
            if len(sub) != N or (N > 0 and not np.array_equal(sub, arr[:N])):
                vs.append(viol(pre + f"|get_nodes_prefix|N={N}", "get_nodes(N) is not the first N rows", case))
                break
    if kind == "cube4D":
        half = np.asarray(poly.get_half_of_hypercube(projection=False), dtype=float)
        full = np.array([cur[i] for i in range(n)])
        tree = cKDTree(full)
        d, hi = tree.query(half)
        if len(half) * 2 != n or d.max() > 1e-9:
            vs.append(viol(pre + "|half|count", "half-hypercube is not half of the nodes", case, expected=n // 2,
                           observed=len(half)))
        else:
            if np.any(np.diff(hi) <= 0):
                vs.append(viol(pre + "|half|order", "half-hypercube selection is not in index order", case))
            _, opp = tree.query(-full)
            sel = np.zeros(n, dtype=bool)
            sel[hi] = True
            if np.any(sel == sel[opp]):
                vs.append(viol(pre + "|half|antipodal", "selection does not contain exactly one of every antipodal pair",
                               case))
            for N in (1, 2, len(half) // 2, len(half)):
                hp = np.asarray(poly.get_half_of_hypercube(projection=True, N=N), dtype=float)
                want = half[:N] / np.linalg.norm(half[:N], axis=1)[:, None]
                if hp.shape != want.shape or np.abs(hp - want).max() > 1e-12:
                    vs.append(viol(pre + f"|half|prefix|N={N}", "half selection with N is not a prefix / projection wrong",
                                   case))
                    break
    return vs


def run_history(case):
    kind, word = case["kind"], case["word"]
    poly = KINDS[kind]()
    record = {}
    vs = []
    ndiv = 0
    canons = []
    steps = 0
    branches = []
    pre0 = f"C18|{kind}|word={word or '-'}"
    v, cur = check_state(poly, kind, 0, record, pre0 + "|step=0", case)
    vs.extend(v)
    for si, ch in enumerate(word, start=1):
        pre = pre0 + f"|step={si}"
        try:
            if ch == "d":
                poly.divide_edges()
                ndiv += 1
                v, cur = check_state(poly, kind, ndiv, record, pre, case)
                vs.extend(v)
            elif ch in "cp":
                # branch the history: continue on a deep copy (c) / a pickle round trip (p); the original is re-checked at
                # the end, after the copy has been subdivided further
                import copy, pickle
                branches.append((poly, ndiv, dict(record)))
                poly = copy.deepcopy(poly) if ch == "c" else pickle.loads(pickle.dumps(poly))
                v, cur = check_state(poly, kind, ndiv, record, pre + "|branch", case)
                vs.extend(v)
            elif ch == "a":
                # read-only adjacency / antipode queries must leave every node attribute untouched
                poly.get_polytope_adj_matrix()
                poly.get_neighbours_of(0)
                nn = poly.G.number_of_nodes()
                if nn <= 170:            # reduced graph of the first points (plotting helper; quadratic in the node count)
                    poly.get_N_element_graph(poly.get_nodes(N=max(1, (2 * nn) // 3), projection=True))
                poly.get_cdist_matrix()
                if kind == "cube4D":
                    from molgri.space.polytopes import find_opposing_q
                    for node in list(poly.G.nodes)[:3]:
                        find_opposing_q(node, poly.G)
                    poly.get_all_cells()
                v, cur = check_state(poly, kind, ndiv, record, pre + "|after_queries", case)
                vs.extend(v)
                vs.extend(check_getters(poly, kind, cur, pre + "|after_queries", case))
            else:
                vs.extend(check_getters(poly, kind, cur, pre, case))
        except Exception as e:
            vs.append(viol(pre + "|raises", f"{type(e).__name__}: {str(e)[:120]}", case))
            break
        steps += 1
        cache_n = poly.current_nodes[1] if poly.current_nodes[0] is not None else -1
        canons.append(digest([kind, ndiv, int(cache_n), sorted(cur.items())[:50], len(cur)]))
    for bi, (old, nd, rec) in enumerate(branches):
        try:
            v, c0 = check_state(old, kind, nd, rec, pre0 + f"|original_of_branch={bi}", case)
            vs.extend(v)
            vs.extend(check_getters(old, kind, c0, pre0 + f"|original_of_branch={bi}", case))
        except Exception as e:
            vs.append(viol(pre0 + f"|original_of_branch={bi}|raises", f"{type(e).__name__}: {str(e)[:120]}", case))
    if len(vs) > 6:
        vs = vs[:6]
    return {"violations": vs, "canons": canons, "steps": steps}


ALPHA = "dga"


def words(L, max_a=1):
    """all words over {d,g} with at most L d's, no 'gg', ending anywhere"""
    out = set()
    def rec(w, nd):
        out.add(w)
        if nd < L:
            rec(w + "d", nd + 1)
        if not w.endswith("g"):
            rec(w + "g", nd)
        if not w.endswith("a") and w.count("a") < max_a:
            rec(w + "a", nd)
    rec("", 0)
    return sorted(out, key=lambda w: (len(w), w))


def run(ctx):
    rep = Report(PROPERTY, "model_checking")
    plan = {"ico": 5, "cube3D": 4, "cube4D": 2} if ctx.thorough else {"ico": 4, "cube3D": 4, "cube4D": 2}
    cs = []
    for kind, L in plan.items():
        # deep subdivision words without queries, and words one level shallower (same depth for cube4D) with one query
        ws = set(words(L, max_a=0)) | set(words(L if kind == "cube4D" else L - 1, max_a=1 if not ctx.thorough else 2))
        # a word that is a proper prefix of another word is covered by it (checks run after every step)
        maximal = [w for w in ws if not any(o != w and o.startswith(w) for o in ws)]
        cs += [{"kind": kind, "word": w} for w in sorted(maximal)]
    # branching histories: a deep copy / pickle round trip taken at every point of a short history, the copy subdivided
    # further than the original and queried
    for kind, L in plan.items():
        Lb = min(L, 2 if kind == "cube4D" else 3)
        for nd0 in range(0, Lb):
            for br in "cp":
                for mid in ("", "g"):
                    cs.append({"kind": kind, "word": "d" * nd0 + mid + br + "d" * (Lb - nd0) + "ga" + ("" if kind == "cube4D" else "dg")})
    cs.sort(key=lambda c: -(c["word"].count("d") * (10 if c["kind"] == "cube4D" else 1)))
    res = ctx.pmap(run_history, cs, chunksize=1, recheck=2)
    states = set()
    trans = 0
    for r in res:
        rep.add_violations(r["violations"])
        states.update(r["canons"])
        trans += r["steps"]
    rep.coverage = {
        "states": len(states) + len(plan), "transitions": trans, "traces_validated_against_impl": len(cs),
        "samples": collect_samples([f"{c['kind']}:{c['word']}" for c in cs], 6),
        "evaluations": trans, "distinct_nontrivial": len(states),
        "rule": "every maximal word over {d=divide_edges, g=all node getters, a=read-only adjacency/antipode queries (at most once; twice in the thorough tier)} with at most L divisions and no immediate repeats, "
                "run on a fresh polytope; after every step: set equality with the ideal lattice (KD-tree, 1e-9), "
                "multiplicity, projection, negation closure, index range / level order / permanence, half selection; "
                "states = distinct (level, cache fill, node table) digests",
        "bound": plan, "exhaustive": True,
    }
    rep.assumptions = ["ideal lattices are generated independently (integer lattice / barycentric points of the 20 faces)",
                       "cube4D level 3 (4160 nodes) is outside the bound, as in the property"]
    return rep


def replay(case):
    return run_history(case)["violations"]

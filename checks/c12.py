"""C12 -- MSM transition matrix = symmetrised, row-normalised lag-tau count matrix.

Shape A: a state is an assigned trajectory; the only event is "append one symbol" (a cell index or NaN).
BFS over ALL trajectories up to a length bound.  In every state, for every tau / window mode / cell count,
the real MSM matrix is compared entry-for-entry with the counting model O-MSM, and the real window generators are
checked *incrementally* against the parent state (the child adds exactly the one window that ends in the new frame).
"""
from __future__ import annotations

import math

import numpy as np

from mc.core import Report, viol
from mc import explorer

from molgri.molecules.transitions import MSM, window, noncorr_window

PROPERTY = "C12"
TOL = 1e-12


def to_arr(traj):
    return np.array([np.nan if x is None else float(x) for x in traj], dtype=float)


def tstr(traj):
    return "".join("N" if x is None else str(x) for x in traj)


def model_windows(traj, tau, noncorr):
    L = len(traj)
    step = tau if noncorr else 1
    out = []
    k = 0
    while k < L - tau:
        a, b = traj[k], traj[k + tau]
        if a is not None and b is not None:
            out.append((int(a), int(b)))
        k += step
    return out


def model_matrix(traj, tau, noncorr, ncells):
    c = np.zeros((ncells, ncells))
    for a, b in model_windows(traj, tau, noncorr):
        c[a, b] += 1
    s = c + c.T
    rows = s.sum(axis=1)
    T = np.zeros_like(s)
    for i in range(ncells):
        if rows[i] > 0:
            T[i] = s[i] / rows[i]
    return T, rows


class TrajSystem:
    def __init__(self, symbols, taus, cell_counts):
        self.symbols = symbols
        self.taus = taus
        self.cell_counts = cell_counts

    def initial(self):
        return {"traj": []}

    def events(self, st):
        return list(self.symbols)

    def terminal(self, st):
        return False

    def canon(self, st):
        return tstr(st["traj"])

    def observe(self, st):
        # the set of distinct (tau=1, sliding) matrices seen is a measure of how much collided
        if len(st["traj"]) < 2:
            return "short"
        T, _ = model_matrix(st["traj"], 1, False, max(self.cell_counts))
        return T.tobytes().hex()

    def apply_quiet(self, st, ev):
        return {"traj": st["traj"] + [ev]}, []

    def apply(self, st, ev):
        parent = st["traj"]
        traj = parent + [ev]
        return {"traj": traj}, check_traj(traj, parent, self.taus, self.cell_counts)


def check_traj(traj, parent, taus, cell_counts):
    vs = []
    arr = to_arr(traj)
    L = len(traj)
    case = {"traj": traj, "taus": list(taus), "cell_counts": list(cell_counts)}
    ts = tstr(traj)
    for tau in taus:
        for noncorr in (False, True):
            mode = "noncorr" if noncorr else "sliding"
            pre = f"C12|traj={ts}|tau={tau}|{mode}"
            # (ii) incremental conformance of the real window generators against the parent state
            gen = noncorr_window if noncorr else (lambda s, t: window(s, t))
            try:
                w_child = list(gen(arr, tau))
                w_parent = list(gen(to_arr(parent), tau)) if parent is not None else None
            except Exception as e:
                vs.append(viol(pre + "|window_raises", f"window generator raised {type(e).__name__}: {e}", case))
                continue
            if w_parent is not None:
                expect = list(w_parent)
                k = L - 1 - tau
                if k >= 0 and (not noncorr or k % tau == 0):
                    a, b = traj[k], traj[L - 1]
                    if a is not None and b is not None:
                        expect.append((int(a), int(b)))
                if [tuple(int(x) for x in w) for w in w_child] != expect:
                    vs.append(viol(pre + "|incremental", "appending one frame must add exactly the window ending in it",
                                   case, expected=expect, observed=[list(map(int, w)) for w in w_child]))
            if [tuple(int(x) for x in w) for w in w_child] != model_windows(traj, tau, noncorr):
                vs.append(viol(pre + "|windows", "window list differs from the counting model", case,
                               expected=model_windows(traj, tau, noncorr), observed=[list(map(int, w)) for w in w_child]))
            for nc in cell_counts:
                key = pre + f"|cells={nc}"
                try:
                    T = MSM(arr, total_num_cells=nc).get_one_tau_transition_matrix(tau, noncorrelated_windows=noncorr)
                    Td = np.asarray(T.toarray(), dtype=float)
                except Exception as e:
                    vs.append(viol(key + "|raises", f"MSM raised {type(e).__name__}: {str(e)[:100]}", case))
                    continue
                E, rows = model_matrix(traj, tau, noncorr, nc)
                if Td.shape != (nc, nc):
                    vs.append(viol(key + "|shape", "wrong shape", case, observed=list(Td.shape)))
                    continue
                if not np.allclose(Td, E, rtol=0, atol=TOL):
                    vs.append(viol(key + "|entries", "matrix differs from (c_ij+c_ji)/sum_k(c_ik+c_ki)", case,
                                   expected=E.tolist(), observed=Td.tolist()))
                rs = Td.sum(axis=1)
                want = (rows > 0).astype(float)
                if not np.allclose(rs, want, rtol=0, atol=1e-12):
                    vs.append(viol(key + "|rowsums", "rows of visited cells must sum to 1, others to 0", case,
                                   expected=want.tolist(), observed=rs.tolist()))
                if (Td < -TOL).any() or (Td > 1 + TOL).any() or not np.isfinite(Td).all():
                    vs.append(viol(key + "|range", "entries outside [0,1]", case, observed=Td.tolist()))
                flux = rows[:, None] * Td
                if not np.allclose(flux, flux.T, rtol=0, atol=1e-9):
                    vs.append(viol(key + "|detailed_balance", "pi_i T_ij != pi_j T_ji for visit counts pi", case))
                if not noncorr:
                    try:
                        Tr = MSM(arr[::-1].copy(), total_num_cells=nc).get_one_tau_transition_matrix(tau, False)
                        if not np.allclose(np.asarray(Tr.toarray()), Td, rtol=0, atol=TOL):
                            vs.append(viol(key + "|reversal", "sliding-window matrix changes under trajectory reversal",
                                           case))
                    except Exception as e:
                        vs.append(viol(key + "|reversal_raises", f"{type(e).__name__}", case))
    # the window-mode flag given as a truthy / falsy value that is not the Python singleton
    if L >= 3:
        for flag, nonc in ((np.True_, True), (np.bool_(1), True), (1, True), (np.False_, False), (0, False)):
            for tau in taus[1:3]:
                try:
                    Tf = np.asarray(MSM(arr, total_num_cells=cell_counts[0]).get_one_tau_transition_matrix(
                        tau, noncorrelated_windows=flag).toarray(), dtype=float)
                    Ef, _ = model_matrix(traj, tau, nonc, cell_counts[0])
                    if not np.allclose(Tf, Ef, rtol=0, atol=TOL):
                        vs.append(viol(f"C12|traj={ts}|flag={type(flag).__name__}:{flag}|tau={tau}", "window mode given as a "
                                       f"{'truthy' if nonc else 'falsy'} non-bool value selects the wrong mode", case,
                                       expected=Ef.tolist(), observed=Tf.tolist()))
                        break
                except Exception as e:
                    vs.append(viol(f"C12|traj={ts}|flag={type(flag).__name__}|raises", f"{type(e).__name__}", case))
                    break
    # NaN-free trajectories handed over with an integer dtype (and a numpy integer cell count)
    if L >= 2 and all(x is not None for x in traj):
        ai = np.array(traj, dtype=np.int64)
        for tau in taus[:2]:
            for noncorr in (False, True):
                try:
                    Ti = np.asarray(MSM(ai, total_num_cells=np.int64(cell_counts[0])).get_one_tau_transition_matrix(
                        tau, noncorrelated_windows=noncorr).toarray(), dtype=float)
                    Ei, _ = model_matrix(traj, tau, noncorr, cell_counts[0])
                    if not np.allclose(Ti, Ei, rtol=0, atol=TOL):
                        vs.append(viol(f"C12|traj={ts}|int_dtype|tau={tau}|{'noncorr' if noncorr else 'sliding'}",
                                       "integer-dtype trajectory gives a different matrix", case, expected=Ei.tolist(),
                                       observed=Ti.tolist()))
                except Exception as e:
                    vs.append(viol(f"C12|traj={ts}|int_dtype|raises", f"{type(e).__name__}: {str(e)[:80]}", case))
    # query histories on ONE instance: results must not depend on earlier queries (e.g. a cache keyed by tau only)
    nc0 = cell_counts[-1]
    queries = [(t, m) for t in taus for m in (False, True)]
    pairs = [(a, b) for a in queries for b in queries if a != b and (L <= 3 or a[0] == b[0] or (L <= 5 and a[1] == b[1] and abs(a[0] - b[0]) == 1))]
    for a, b in pairs:
        try:
            inst = MSM(arr, total_num_cells=nc0)
            inst.get_one_tau_transition_matrix(a[0], noncorrelated_windows=a[1])
            T2 = np.asarray(inst.get_one_tau_transition_matrix(b[0], noncorrelated_windows=b[1]).toarray())
            T3 = np.asarray(inst.get_one_tau_transition_matrix(a[0], noncorrelated_windows=a[1]).toarray())
        except Exception as e:
            vs.append(viol(f"C12|traj={ts}|reuse|raises", f"{type(e).__name__}", case))
            break
        E2, _ = model_matrix(traj, b[0], b[1], nc0)
        E3, _ = model_matrix(traj, a[0], a[1], nc0)
        if not (np.allclose(T2, E2, rtol=0, atol=TOL) and np.allclose(T3, E3, rtol=0, atol=TOL)):
            vs.append(viol(f"C12|traj={ts}|reuse|first=tau{a[0]},{'noncorr' if a[1] else 'sliding'}|then=tau{b[0]},"
                           f"{'noncorr' if b[1] else 'sliding'}", "a query on the same MSM instance depends on an earlier "
                           "query", case, expected=E2.tolist(), observed=T2.tolist()))
            break
    # all-tau getter == individual getters (same object, repeated calls)
    nc = cell_counts[0]
    try:
        m = MSM(arr, total_num_cells=nc)
        # the multi-tau path: taus in ascending, descending and mixed order (with a repeat and an over-long lag), both modes
        orders = [list(taus), list(taus)[::-1], [taus[-1], taus[0], taus[0], L + 2] + list(taus[1:-1])]
        for oi, order in enumerate(orders):
            for nonc in (False, True):
                allT = m.get_all_tau_transition_matrices(np.array(order), noncorrelated_windows=nonc)
                if len(allT) != len(order):
                    vs.append(viol(f"C12|traj={ts}|all_taus|order={order}|length", "one matrix per requested tau expected", case))
                    continue
                for pos, (t, T) in enumerate(zip(order, allT)):
                    E, _ = model_matrix(traj, t, nonc, nc)
                    if not np.allclose(np.asarray(T.toarray()), E, rtol=0, atol=TOL):
                        vs.append(viol(f"C12|traj={ts}|all_taus|order={order}|{'noncorr' if nonc else 'sliding'}|pos={pos}",
                                       f"get_all_tau_transition_matrices: entry {pos} is not the matrix of tau={t}", case,
                                       expected=E.tolist(), observed=np.asarray(T.toarray()).tolist()))
                        break
    except Exception as e:
        vs.append(viol(f"C12|traj={ts}|all_taus|raises", f"{type(e).__name__}: {str(e)[:100]}", case))
    return vs


def long_case(case):
    """one long trajectory (longer than any internal block size); counting model vectorised with numpy"""
    L, tau, noncorr, nc = case["L"], case["tau"], case["noncorr"], case["cells"]
    k = np.arange(L)
    traj = ((k * 7 + (k // 11) * 3 + (k // 1009)) % nc).astype(float)
    traj[(k % 997) == 5] = np.nan
    traj[50000:50003] = np.nan
    step = tau if noncorr else 1
    starts = np.arange(0, L - tau, step)
    a, b = traj[starts], traj[starts + tau]
    ok = ~(np.isnan(a) | np.isnan(b))
    C = np.zeros((nc, nc))
    np.add.at(C, (a[ok].astype(int), b[ok].astype(int)), 1)
    S = C + C.T
    rows = S.sum(axis=1)
    E = np.divide(S, rows[:, None], out=np.zeros_like(S), where=rows[:, None] > 0)
    key = f"C12|long|L={L}|tau={tau}|{'noncorr' if noncorr else 'sliding'}"
    try:
        T = np.asarray(MSM(traj, total_num_cells=nc).get_one_tau_transition_matrix(tau, noncorrelated_windows=noncorr).toarray())
    except Exception as e:
        return {"violations": [viol(key + "|raises", f"{type(e).__name__}: {str(e)[:100]}", case)]}
    if T.shape != E.shape or not np.allclose(T, E, rtol=0, atol=1e-12):
        return {"violations": [viol(key + "|entries", "transition matrix of a long trajectory differs from the counting model "
                                    "(windows lost or added somewhere along the trajectory)", case,
                                    observed=float(np.abs(T - E).max()) if T.shape == E.shape else list(T.shape))]}
    return {"violations": []}


def big_case(case):
    """a short trajectory relabelled onto the highest cell indices of a very large grid (sparse comparison)"""
    nc, tau, noncorr, base = case["cells"], case["tau"], case["noncorr"], case["traj"]
    labels = [nc - 1, 3, nc - 2, nc // 2 + 1]
    traj = np.array([np.nan if x is None else labels[x] for x in base], dtype=float)
    small = np.array([np.nan if x is None else x for x in base], dtype=float)
    key = f"C12|big|cells={nc}|traj={tstr(base)}|tau={tau}|{'noncorr' if noncorr else 'sliding'}"
    E, _rows = model_matrix(base, tau, noncorr, 4)
    try:
        T = MSM(traj, total_num_cells=nc).get_one_tau_transition_matrix(tau, noncorrelated_windows=noncorr)
        Tc = T.tocsr() if hasattr(T, "tocsr") else T
        if tuple(Tc.shape) != (nc, nc):
            return {"violations": [viol(key + "|shape", "wrong shape", case, observed=list(Tc.shape))]}
        sub = np.asarray(Tc[labels][:, labels].toarray(), dtype=float)
        outside = float(abs(Tc).sum() - np.abs(sub).sum())
    except Exception as e:
        return {"violations": [viol(key + "|raises", f"{type(e).__name__}: {str(e)[:100]}", case)]}
    if not np.allclose(sub, np.asarray(E, dtype=float), rtol=0, atol=1e-12) or abs(outside) > 1e-9:
        return {"violations": [viol(key + "|entries", "transition matrix on a very large grid differs from the counting "
                                    "model of the same trajectory on the visited cells (or has mass on unvisited cells)",
                                    case, expected=np.asarray(E).tolist(), observed=sub.tolist())]}
    return {"violations": []}


def run(ctx):
    rep = Report(PROPERTY, "model_checking")
    if ctx.thorough:
        plans = [([0, 1, 2, None], [1, 2, 3, 4], [3, 5], 8), ([0, 1, 2, 3, 4, None], [1, 2, 3, 5], [5, 7], 5)]
    else:
        plans = [([0, 1, 2, None], [1, 2, 3, 4], [3, 5], 6), ([0, 1, 2, 3, None], [1, 2, 5], [4], 4)]
    states = trans = 0
    bounds, samples = [], []
    dobs = 0
    capped = False
    for symbols, taus, cells, depth in plans:
        r = explorer.bfs(ctx, TrajSystem(symbols, taus, cells), depth=depth)
        states += r["states"]
        trans += r["transitions"]
        dobs += r["distinct_observations"]
        capped |= r["capped"]
        rep.add_violations(r["violations"])
        bounds.append({"symbols": ["NaN" if s is None else s for s in symbols], "taus": taus, "cells": cells,
                       "max_len": depth, "states": r["states"], "transitions": r["transitions"]})
        samples.extend(tstr(h) for h in r["samples"][:3])
        ctx.log(f"  C12 bfs |alphabet|={len(symbols)} len<={depth}: states={r['states']} transitions={r['transitions']} "
                f"violations={len(r['violations'])}")
    lcs = [{"long": True, "L": L, "tau": tau, "noncorr": nonc, "cells": 6}
           for L in ((100003, 65537) if not ctx.thorough else (100003, 65537, 200001, 262145))
           for tau, nonc in ((1, False), (7, False), (7, True))]
    for r in ctx.pmap(long_case, lcs, chunksize=1, recheck=0):
        rep.add_violations(r["violations"])
    bcs = [{"big": True, "cells": nc, "tau": tau, "noncorr": nonc, "traj": tr}
           for nc in ((46341, 70000, 3000000) if not ctx.thorough else (32768, 46341, 65536, 70000, 92682, 3000000))
           for tau, nonc in ((1, False), (2, True))
           for tr in ([0, 1, 0, 2, 2, 3, None, 1, 0], [2, 0, 0, 1, 3, 3, 0, 2])]
    for r in ctx.pmap(big_case, bcs, chunksize=1, recheck=0):
        rep.add_violations(r["violations"])
    rep.coverage = {
        "very_large_grids": len(bcs),
        "long_trajectories": len(lcs),
        "states": states, "transitions": trans, "traces_validated_against_impl": trans,
        "samples": samples, "evaluations": trans, "distinct_nontrivial": dobs,
        "distinct_observations": dobs,
        "rule": "BFS over all trajectories (append one symbol) up to the length bound; in each state every tau x "
                "{sliding, non-overlapping} x cell count is compared with the counting model and the window generator "
                "is compared incrementally with the parent state; distinct_nontrivial = distinct tau=1 sliding matrices",
        "bound": bounds, "exhaustive": not capped,
    }
    rep.assumptions = ["counting model is the literal statement of the property (30 lines)",
                       "float tolerance 1e-12 on entries (counts/row sums are small integers)"]
    return rep


def replay(case):
    if case.get("big"):
        return big_case(case)["violations"]
    if case.get("long"):
        return long_case(case)["violations"]
    traj = case["traj"]
    return check_traj(traj, traj[:-1] if traj else None, case["taus"], case["cell_counts"])

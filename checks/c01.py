"""C01 -- SqRA rate matrix is the SqRA formula and a reversible generator.

Shape B: exhaustive enumeration of (n, symmetric sparsity pattern, energy vector over a 5-letter alphabet, storage form,
temperature) against the dense-loop oracle O-SQRA, on the real SQRA.get_rate_matrix.
"""
from __future__ import annotations

import itertools

import numpy as np
from scipy.sparse import coo_array, csr_array, issparse
from scipy.constants import k as kB, N_A

from mc.core import Report, viol, collect_samples

from molgri.molecules.transitions import SQRA

PROPERTY = "C01"
R_GAS = kB * N_A
ALPHABET = [0.0, -3.7, 12.5, 612.5, -700.0]
PRIMES = [2, 3, 5, 7, 11, 13, 17, 19, 23, 29, 31, 37, 41, 43, 47, 53, 59, 61, 67, 71]


def tables(n):
    S = np.zeros((n, n))
    h = np.zeros((n, n))
    k = 0
    for i in range(n):
        for j in range(i + 1, n):
            S[i, j] = S[j, i] = PRIMES[k % 20] / 3.0
            h[i, j] = h[j, i] = PRIMES[(k + 7) % 20] / 11.0
            k += 1
    V = np.array([1.0 + 0.37 * i + 0.11 * i * i for i in range(n)])
    return S, h, V


def patterns(n):
    pairs = list(itertools.combinations(range(n), 2))
    for bits in range(2 ** len(pairs)):
        yield bits, [p for b, p in enumerate(pairs) if bits >> b & 1]


def build(n, edges, form, vint=False):
    S, h, V = tables(n)
    if vint:
        V = np.arange(1, n + 1, dtype=np.int64)[::-1].copy()      # whole-number volumes given with an integer dtype
    rows, cols = [], []
    for i in range(n):
        for j in range(n):
            if (min(i, j), max(i, j)) in edges and i != j:
                rows.append(i)
                cols.append(j)
    rows, cols = np.array(rows, dtype=int), np.array(cols, dtype=int)
    sm = coo_array((S[rows, cols], (rows, cols)), shape=(n, n))   # row-major coo, as FullGrid produces
    hm = coo_array((h[rows, cols], (rows, cols)), shape=(n, n))
    fs, fh = form.split("/")
    if fs == "csru":         # csr whose column indices are NOT sorted within a row (same order in both matrices)
        def unsorted(m):
            c = m.tocsr()
            for r_ in range(c.shape[0]):
                lo, hi = c.indptr[r_], c.indptr[r_ + 1]
                c.indices[lo:hi] = c.indices[lo:hi][::-1].copy()
                c.data[lo:hi] = c.data[lo:hi][::-1].copy()
            c.has_sorted_indices = False
            return c
        return unsorted(sm), unsorted(hm), V, S, h
    sm = sm.tocsr() if fs == "csr" else sm
    hm = hm.tocsr() if fh == "csr" else hm
    return sm, hm, V, S, h


def oracle(n, edges, E, T, D, S, h, V):
    V = np.asarray(V, dtype=float)
    Q = np.zeros((n, n))
    for (a, b) in edges:
        for i, j in ((a, b), (b, a)):
            Q[i, j] = D * S[i, j] / (h[i, j] * V[i]) * np.exp(min(E[i] - E[j], 500.0) * 1000.0 / (2 * R_GAS * T))
    for i in range(n):
        Q[i, i] = -Q[i].sum()
    return Q


def close(a, b, rtol):
    return np.all(np.abs(a - b) <= rtol * np.maximum(np.abs(a), np.abs(b)) + 1e-300)


def run_case(case):
    n, bits, edges = case["n"], case["bits"], [tuple(e) for e in case["edges"]]
    letters = case["letters"]
    Ts = case["Ts"]
    D = 1.3
    vs = {}
    calls = 0

    def add(kind, E, form, T, what, expected=None, observed=None):
        if kind in vs:
            return
        c = {"n": n, "bits": bits, "edges": case["edges"], "letters": [list(E)], "Ts": [T], "forms": [form],
             "vint": case.get("vint", False), "eint": case.get("eint", False)}
        dt = ("|Vint" if case.get("vint") else "") + ("|Eint" if case.get("eint") else "")
        vs[kind] = viol(f"C01|n={n}|pattern={bits}|{kind}|E={list(E)}|form={form}|T={T}{dt}", what, c, expected, observed)

    for E in (itertools.product(letters, repeat=n) if not (letters and isinstance(letters[0], list))
              else [tuple(x) for x in letters]):
        E = np.array(E, dtype=float)
        for T in Ts:
            for form in case["forms"]:
                sm, hm, V, S, h = build(n, edges, form, vint=case.get("vint", False))
                calls += 1
                try:
                    Ein = E.astype(np.int64) if case.get("eint") else E
                    Qs = SQRA(energies=Ein, volumes=V, distances=hm, surfaces=sm).get_rate_matrix(D=D, T=T)
                except Exception as e:
                    add("raises", E, form, T, f"get_rate_matrix raised {type(e).__name__}: {str(e)[:100]}")
                    continue
                if not (issparse(Qs) and Qs.format == "csr"):
                    add("not_csr", E, form, T, "result is not csr", observed=type(Qs).__name__)
                Q = np.asarray(Qs.toarray(), dtype=float)
                X = oracle(n, edges, E, T, D, S, h, V)
                if Q.shape != (n, n):
                    add("shape", E, form, T, "wrong shape", observed=list(Q.shape))
                    continue
                off = ~np.eye(n, dtype=bool)
                if not close(Q[off], X[off], 1e-9):
                    add("formula", E, form, T, "off-diagonal entries differ from D*S/(h*V_i)*exp(min(dE,500)/(2RT))",
                        X.tolist(), Q.tolist())
                if np.any((X[off] == 0) != (Q[off] == 0)):
                    add("pattern", E, form, T, "off-diagonal sparsity pattern differs from the input pattern",
                        (X != 0).tolist(), (Q != 0).tolist())
                scale = np.abs(Q).max(axis=1)
                if np.any(np.abs(Q.sum(axis=1)) > 1e-12 * np.maximum(scale, 1e-300)):
                    add("rowsum", E, form, T, "rows do not sum to zero", observed=Q.sum(axis=1).tolist())
                # detailed balance below the cap
                for (a, b) in edges:
                    if abs(E[a] - E[b]) < 500:
                        lhs = np.log(Q[a, b]) - np.log(Q[b, a]) if Q[a, b] > 0 and Q[b, a] > 0 else np.nan
                        rhs = np.log(V[b] / V[a]) + (E[a] - E[b]) * 1000 / (R_GAS * T)
                        if not (abs(lhs - rhs) <= 1e-9 * max(1.0, abs(rhs))):
                            add("detailed_balance", E, form, T, f"detailed balance violated for pair {(a, b)}",
                                float(rhs), None if np.isnan(lhs) else float(lhs))
                if form == case["forms"][0]:
                    # metamorphic: constant shift of energies, linearity in D
                    calls += 2
                    try:
                        Q2 = SQRA(E + 41.7, V, hm, sm).get_rate_matrix(D=D, T=T).toarray()
                        if not close(Q2, Q, 1e-9):
                            add("shift", E, form, T, "rate matrix changes when a constant is added to all energies")
                        Q3 = SQRA(E, V, hm, sm).get_rate_matrix(D=2.5 * D, T=T).toarray()
                        if not close(Q3, 2.5 * Q, 1e-12):
                            add("linear_D", E, form, T, "rate matrix is not linear in D")
                    except Exception as e:
                        add("metamorphic_raises", E, form, T, f"{type(e).__name__}")
    # ---- call histories on ONE instance (state kept between calls must not leak): all (D,T) words up to length 3
    if edges and not case.get("vint") and not case.get("eint") and not case.get("no_reuse"):
        menu = [(1.3, 273.15), (2.6, 273.15), (1.3, 310.0)]
        Es = [np.array(e, dtype=float) for e in (list(itertools.islice(itertools.product(letters, repeat=n), 3))
                                                 if not isinstance(letters[0], list) else [letters[0]])]
        for E in Es[-2:]:
            form = case["forms"][bits % len(case["forms"])]
            for word in itertools.product(range(3), repeat=3):
                sm, hm, V, S, h = build(n, edges, form)
                keep = (sm.data.copy(), hm.data.copy(), V.copy(), E.copy())
                obj = SQRA(energies=E, volumes=V, distances=hm, surfaces=sm)
                for step, w in enumerate(word):
                    Dw, Tw = menu[w]
                    calls += 1
                    try:
                        Q = obj.get_rate_matrix(D=Dw, T=Tw).toarray()
                    except Exception as e:
                        add("reuse_raises", E, form, Tw, f"call {step + 1} on the same instance raised {type(e).__name__}")
                        break
                    X = oracle(n, edges, E, Tw, Dw, S, h, V)
                    if not close(Q, X, 1e-9):
                        if "instance_reuse" not in vs:
                            c = {"n": n, "bits": bits, "edges": case["edges"], "letters": [list(E)], "Ts": [Tw],
                                 "forms": [form], "word": list(word)}
                            vs["instance_reuse"] = viol(
                                f"C01|n={n}|pattern={bits}|instance_reuse|E={list(E)}|form={form}|calls={[menu[x] for x in word[:step + 1]]}",
                                f"call {step + 1} of the sequence {[menu[x] for x in word[:step + 1]]} on one SQRA instance "
                                "differs from the formula (state leaks between calls)", c, X.tolist(), Q.tolist())
                        break
                if not (np.array_equal(sm.data, keep[0]) and np.array_equal(hm.data, keep[1]) and np.array_equal(V, keep[2])
                        and np.array_equal(E, keep[3])):
                    add("mutates_input", E, form, 273.15, "get_rate_matrix modified its input arrays")
    return {"violations": list(vs.values()), "calls": calls, "nontrivial": len(edges) >= 1}


def cases(tier):
    out = []
    forms = ["csr/csr", "coo/coo", "csr/coo", "coo/csr"]
    for n in (2, 3, 4):
        for bits, edges in patterns(n):
            out.append({"n": n, "bits": bits, "edges": edges, "letters": ALPHABET,
                        "Ts": [273.15] if tier == "quick" else [100.0, 273.15, 310.0, 1000.0], "forms": forms})
    # wide energy spans (far beyond the cap, several thousand kJ/mol above the minimum), low temperature, integer dtypes
    FAR = [0.0, 4800.0, -2500.0, 12.5]
    for n in (2, 3):
        for bits, edges in patterns(n):
            out.append({"n": n, "bits": bits, "edges": edges, "letters": FAR, "Ts": [100.0, 273.15, 1000.0], "forms": forms[:2],
                        "no_reuse": True})
    for bits, edges in patterns(4):
        out.append({"n": 4, "bits": bits, "edges": edges, "letters": [0.0, 4800.0, -2500.0], "Ts": [273.15],
                    "forms": ["csr/coo"], "no_reuse": True})
    # csr with unsorted column indices; energies that are nearly equal relative to a huge common offset
    for n in (3, 4):
        for bits, edges in patterns(n):
            out.append({"n": n, "bits": bits, "edges": edges, "letters": [0.0, -3.7, 12.5], "Ts": [273.15], "forms": ["csru/csru"],
                        "no_reuse": True})
            out.append({"n": n, "bits": bits, "edges": edges, "letters": [400000.0, 400001.5, 399998.0], "Ts": [273.15],
                        "forms": ["csr/coo"], "no_reuse": True})
    # energy differences below the cap but large in units of RT, at low and high temperature
    for n in (2, 3):
        for bits, edges in patterns(n):
            out.append({"n": n, "bits": bits, "edges": edges, "letters": [0.0, 300.0, -150.0, 499.0], "Ts": [60.0, 100.0, 180.0, 2000.0],
                        "forms": forms[:1], "no_reuse": True})
    for n in (2, 3, 4):
        for bits, edges in patterns(n):
            out.append({"n": n, "bits": bits, "edges": edges, "letters": [0.0, 7.0, -3.0], "Ts": [273.15], "forms": forms[:2],
                        "vint": True})
            out.append({"n": n, "bits": bits, "edges": edges, "letters": [0.0, 7.0, -612.0], "Ts": [273.15], "forms": forms[:1],
                        "eint": True, "vint": bits % 2 == 0})
    # larger structured patterns (ring, star, 6 x 10 lattice, two components + isolated cells): one case each
    def _big(name, n, edges):
        out.append({"n": n, "bits": name, "edges": [list(e) for e in edges], "letters": [BIGE[name]], "Ts": [273.15, 150.0],
                    "forms": ["csr/csr", "coo/csr"], "no_reuse": True})
    BIGE = {}
    ring = [(i, (i + 1) % 60) for i in range(60)]
    ring = [(min(a, b), max(a, b)) for a, b in ring]
    BIGE["ring60"] = [float((i * 37) % 23) - 7.5 + (650.0 if i == 30 else 0.0) for i in range(60)]
    _big("ring60", 60, ring)
    BIGE["star40"] = [float(i % 5) * 3.3 - (200.0 if i == 0 else 0.0) for i in range(40)]
    _big("star40", 40, [(0, i) for i in range(1, 40)])
    lat = [(r * 10 + c, r * 10 + c + 1) for r in range(6) for c in range(9)] + [(r * 10 + c, (r + 1) * 10 + c) for r in range(5) for c in range(10)]
    BIGE["lattice60"] = [2.0 * ((i % 10) - 4.5) ** 2 - 10.0 * (i // 10) for i in range(60)]
    _big("lattice60", 60, lat)
    two = [(i, i + 1) for i in range(0, 19)] + [(i, i + 1) for i in range(25, 44)] + [(25, 44)]
    BIGE["components50"] = [float((i * 7) % 11) for i in range(50)]
    _big("components50", 50, two)
    if tier == "thorough":
        for bits, edges in patterns(5):
            out.append({"n": 5, "bits": bits, "edges": edges, "letters": [0.0, 612.5, -3.7], "Ts": [273.15, 310.0],
                        "forms": forms})
    else:
        # a slice of n=5 for the quick tier: every pattern, 2-letter energies, one form pair
        for bits, edges in patterns(5):
            out.append({"n": 5, "bits": bits, "edges": edges, "letters": [0.0, 612.5], "Ts": [273.15],
                        "forms": ["csr/coo"]})
    return out


def huge_case(case):
    """rows x cols lattice with more than 2**16 stored neighbour pairs; sparse, vectorised oracle (every stored entry)"""
    rows, cols, form, T = case["rows"], case["cols"], case["form"], case["T"]
    n = rows * cols
    idx = np.arange(n).reshape(rows, cols)
    a = np.concatenate([idx[:, :-1].ravel(), idx[:-1, :].ravel()])
    b = np.concatenate([idx[:, 1:].ravel(), idx[1:, :].ravel()])
    i, j = np.concatenate([a, b]), np.concatenate([b, a])
    order = np.lexsort((j, i))             # row-major coo
    i, j = i[order], j[order]
    lo, hi = np.minimum(i, j), np.maximum(i, j)
    Sv = 1.0 + ((lo * 7 + hi * 3) % 11) / 4.0
    hv = 0.5 + ((lo * 5 + hi) % 7) / 8.0
    V = 1.0 + (np.arange(n) % 13) / 5.0
    E = 6.0 * np.sin(0.37 * (np.arange(n) % cols)) + 0.004 * np.arange(n) - 30.0 * (np.arange(n) % 977 == 5)
    D = 1.3
    sm, hm = coo_array((Sv, (i, j)), shape=(n, n)), coo_array((hv, (i, j)), shape=(n, n))
    fs, fh = form.split("/")
    sm = sm.tocsr() if fs == "csr" else sm
    hm = hm.tocsr() if fh == "csr" else hm
    pre = f"C01|huge|{rows}x{cols}|form={form}|T={T}"
    try:
        Q = SQRA(energies=E, volumes=V, distances=hm, surfaces=sm).get_rate_matrix(D=D, T=T)
    except Exception as e:
        return {"violations": [viol(pre + "|raises", f"get_rate_matrix raised {type(e).__name__}: {str(e)[:100]}", case)],
                "calls": 1, "nontrivial": True}
    vs = []
    want = D * Sv / (hv * V[i]) * np.exp(np.minimum(E[i] - E[j], 500.0) * 1000.0 / (2 * R_GAS * T))
    X = csr_array((want, (i, j)), shape=(n, n))
    Qc = csr_array(Q)
    diag = Qc.diagonal()
    off = (Qc - csr_array((diag, (np.arange(n), np.arange(n))), shape=(n, n))).tocsr()
    off.eliminate_zeros(); off.sort_indices(); X.sort_indices()
    if off.nnz != X.nnz or not np.array_equal(off.indices, X.indices) or not np.array_equal(off.indptr, X.indptr):
        vs.append(viol(pre + "|pattern", "off-diagonal sparsity pattern differs from the input pattern", case,
                       expected=int(X.nnz), observed=int(off.nnz)))
    elif not close(off.data, X.data, 1e-9):
        k = int(np.argmax(np.abs(off.data - X.data) / np.abs(X.data)))
        vs.append(viol(pre + "|formula", f"off-diagonal entries differ from D*S/(h*V_i)*exp(min(dE,500)/(2RT)); first stored "
                       f"entry that differs is number {int(np.nonzero(~np.isclose(off.data, X.data, rtol=1e-9, atol=0))[0][0])} "
                       f"of {X.nnz}", case, expected=float(X.data[k]), observed=float(off.data[k])))
    rs = np.asarray(Qc.sum(axis=1)).ravel()
    if np.any(np.abs(rs) > 1e-12 * np.maximum(np.abs(diag), 1e-300)):
        vs.append(viol(pre + "|rowsum", "rows do not sum to zero", case, observed=float(np.abs(rs).max())))
    return {"violations": vs, "calls": 1, "nontrivial": True}


def run(ctx):
    rep = Report(PROPERTY, "exploration")
    cs = cases(ctx.tier)
    res = ctx.pmap(run_case, cs, chunksize=4)
    # sizes past 2**16 stored neighbour pairs (block-wise evaluation, index dtypes): 129 x 129 and 150 x 150 lattices
    hc = [{"huge": True, "rows": r, "cols": c, "form": f, "T": T} for (r, c) in ((129, 129), (150, 150))
          for f in ("csr/coo", "coo/csr") for T in (273.15,)]
    res = res + ctx.pmap(huge_case, hc, chunksize=1, recheck=1)
    calls = sum(r["calls"] for r in res)
    for r in res:
        rep.add_violations(r["violations"])
    rep.coverage = {
        "evaluations": calls,
        "distinct_nontrivial": sum(1 for r in res if r["nontrivial"]),
        "rule": "every symmetric off-diagonal pattern on n=2..4 (5) nodes x every energy vector over "
                f"{ALPHABET} kJ/mol x 4 storage-form pairs x temperatures; distinct_nontrivial counts distinct "
                "(n, pattern) with >=1 edge; evaluations counts get_rate_matrix calls",
        "samples": collect_samples([{k: c[k] for k in ("n", "edges", "Ts", "forms")} for c in cs], 4),
        "patterns": len(cs), "exhaustive": True,
        "bound": {"n": [2, 3, 4, 5], "alphabet": ALPHABET},
    }
    rep.assumptions = ["S, h, V tables are fixed asymmetric-looking positives (distinct primes)", "T >= 100 K",
                       "relative tolerance 1e-9 on entries"]
    return rep


def replay(case):
    if case.get("huge"):
        return huge_case(case)["violations"]
    return run_case(case)["violations"]

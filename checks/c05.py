"""C05 -- spherical-shell position cells tile the ball: exact volumes, faces, distances.

Shape B: direction algorithms x N x radial grids (unequal increments, unsorted input, every accepted text form);
every cell and every ordered pair compared with the closed forms of the statement on top of O-S2.
"""
from __future__ import annotations

from fractions import Fraction as F

import numpy as np

from mc.core import Report, viol, collect_samples, Isolated, Sequence
from mc.oracles.s2 import sphere_voronoi
from mc.histories import explore_getter_orders

from molgri.space.fullgrid import PositionGrid

PROPERTY = "C05"
RTOL = 1e-7

RADIALS = [
    ("0.3", ["0.3"]),
    ("[0.1,0.2]", ["0.1", "0.2"]),
    ("[0.1, 0.25, 0.3]", ["0.1", "0.25", "0.3"]),
    ("[0.3, 0.1, 0.25, 0.7]", ["0.1", "0.25", "0.3", "0.7"]),
    ("[0.15,0.2,0.6,0.65,1.1]", ["0.15", "0.2", "0.6", "0.65", "1.1"]),
    ("linspace(0.2, 0.4, 5)", ["0.2", "0.25", "0.3", "0.35", "0.4"]),
    ("range(1, 4)", ["1", "2", "3"]),
    ("(0.5, 0.25)", ["0.25", "0.5"]),
    ("range(1.4, 4.4)", ["1.4", "2.4", "3.4"]),
]
CLOSE_RADII = [("[0.2, 0.2001, 0.5]", ["0.2", "0.2001", "0.5"]), ("[0.01, 5]", ["0.01", "5"]),
               ("[0.3, 0.30000001]", ["0.3", "0.30000001"])]
MANY_SHELLS = [("linspace(0.1, 2.3, 12)", [str(F(1, 10) + F(22, 110) * i) for i in range(12)]),
               ("[0.05, 0.1, 0.2, 0.4, 0.8, 1.6, 3.2, 6.4]", ["0.05", "0.1", "0.2", "0.4", "0.8", "1.6", "3.2", "6.4"])]
RADIALS_T = RADIALS + [
    ("linspace(0.2,1.5,3)", ["0.2", "0.85", "1.5"]),
    ("arange(0.5, 2, 0.5)", ["0.5", "1", "1.5"]),
    ("[2.5, 0.05]", ["0.05", "2.5"]),
    ("[0.05,0.1,0.25,0.3,0.7,1]", ["0.05", "0.1", "0.25", "0.3", "0.7", "1"]),
    ("1", ["1"]),
]


def oracle(P, r):
    """P (n_o,3) unit directions, r ascending radii in Angstrom -> dense volume / adjacency / border / distance."""
    o = sphere_voronoi(P)
    n_o, T = len(P), len(r)
    if T == 1:
        R = np.array([2 * r[0]])
    else:
        R = np.concatenate([(r[:-1] + r[1:]) / 2, [r[-1] + (r[-1] - r[-2]) / 2]])
    Rl = np.concatenate([[0.0], R[:-1]])
    n = n_o * T
    vol = np.zeros(n)
    B = np.zeros((n, n))
    D = np.zeros((n, n))
    A = np.zeros((n, n), dtype=bool)
    for k in range(T):
        for a in range(n_o):
            p = k * n_o + a
            vol[p] = o["area"][a] * (R[k] ** 3 - Rl[k] ** 3) / 3
            if k + 1 < T:
                q = (k + 1) * n_o + a
                A[p, q] = A[q, p] = True
                B[p, q] = B[q, p] = o["area"][a] * R[k] ** 2
                D[p, q] = D[q, p] = r[k + 1] - r[k]
            for b in range(n_o):
                if o["adj"][a, b]:
                    q = k * n_o + b
                    A[p, q] = True
                    B[p, q] = o["arc"][a, b] * (R[k] ** 2 - Rl[k] ** 2) / 2
                    D[p, q] = r[k] * o["dist"][a, b]
    return vol, A, B, D, R, o


def first_bad(M, X, mask):
    # relative tolerance per entry plus an absolute floor of 1e-9 of the largest entry (the arc of a 1e-4 rad sliver edge
    # carries ~1e-7 relative rounding noise from the arccos of a cosine within 1e-8 of one)
    scale = float(np.abs(X[mask]).max()) if np.any(mask) else 0.0
    err = np.abs(M - X) > RTOL * np.maximum(np.abs(X), 1e-12) + 1e-9 * scale
    bad = np.argwhere(err & mask)
    return bad[0].tolist() if len(bad) else None


def run_case(case):
    alg, N, tname, tvals = case["alg"], case["N"], case["t"], case["radii_nm"]
    pre = f"C05|{alg}_{N}|t={tname}"
    vs = []
    r = np.array([float(F(x) * 10) for x in tvals])
    try:
        pg = PositionGrid(f"{alg}_{N}", tname, position_grid_cartesian=False)
        P = np.asarray(pg.get_o_grid().get_grid_as_array(), dtype=float)
        vol = np.asarray(pg.get_all_position_volumes(), dtype=float)
        A = pg.get_adjacency_of_position_grid().toarray().astype(bool)
        B = pg.get_borders_of_position_grid().toarray().astype(float)
        D = pg.get_distances_of_position_grid().toarray().astype(float)
        radii = np.asarray(pg.get_radii(), dtype=float)
    except Exception as e:
        return {"violations": [viol(pre + "|raises", f"position grid raised {type(e).__name__}: {str(e)[:120]}", case,
                                    observed=type(e).__name__)], "cells": 0}
    T = len(r)
    n = N * T
    if radii.shape != r.shape or not np.allclose(radii, r, rtol=1e-12):
        vs.append(viol(pre + "|radii", "radii differ from intended (ascending, Angstrom)", case, expected=r.tolist(),
                       observed=radii.tolist()))
        return {"violations": vs, "cells": n}
    xvol, XA, XB, XD, R, o = oracle(P, r)
    if vol.shape != (n,) or A.shape != (n, n) or B.shape != (n, n) or D.shape != (n, n):
        vs.append(viol(pre + "|shape", "wrong shapes", case, observed=[list(vol.shape), list(A.shape)]))
        return {"violations": vs, "cells": n}
    if np.abs(vol - xvol).max() > RTOL * np.abs(xvol).max():
        i = int(np.argmax(np.abs(vol - xvol)))
        vs.append(viol(pre + "|volume", f"volume of cell {i} (shell {i // N}, direction {i % N}) differs from "
                       "area*(R_k^3-R_{k-1}^3)/3", case, expected=float(xvol[i]), observed=float(vol[i])))
    if not np.array_equal(A, XA):
        i, j = np.argwhere(A != XA)[0].tolist()
        vs.append(viol(pre + "|adjacency", f"adjacency of pair ({i},{j}) wrong", case, expected=bool(XA[i, j]),
                       observed=bool(A[i, j])))
    for name, M, X in (("border", B, XB), ("distance", D, XD)):
        if not np.array_equal(M != 0, XA):
            i, j = np.argwhere((M != 0) != XA)[0].tolist()
            vs.append(viol(pre + f"|{name}_pattern", f"{name} pattern differs from adjacency at ({i},{j})", case,
                           expected=float(X[i, j]), observed=float(M[i, j])))
        fb = first_bad(M, X, XA)
        if fb is not None:
            i, j = fb
            kind = "radial" if i % N == j % N else "same_shell"
            vs.append(viol(pre + f"|{name}|{kind}", f"{name} of pair ({i},{j}) [{kind}] differs from the closed form",
                           case, expected=float(X[i, j]), observed=float(M[i, j])))
    # the three sums of the statement (on the code's numbers)
    Rl = np.concatenate([[0.0], R[:-1]])
    for k in range(T):
        sv = vol[k * N:(k + 1) * N].sum()
        want = 4 * np.pi * (R[k] ** 3 - Rl[k] ** 3) / 3
        if abs(sv - want) > 1e-7 * want:
            vs.append(viol(pre + f"|shell_volume_sum|k={k}", "shell volumes do not sum to the shell's volume", case,
                           expected=float(want), observed=float(sv)))
        if k + 1 < T:
            sf = sum(B[k * N + a, (k + 1) * N + a] for a in range(N))
            if abs(sf - 4 * np.pi * R[k] ** 2) > 1e-7 * 4 * np.pi * R[k] ** 2:
                vs.append(viol(pre + f"|radial_face_sum|k={k}", "radial faces do not sum to 4 pi R_k^2", case,
                               expected=float(4 * np.pi * R[k] ** 2), observed=float(sf)))
    if abs(vol.sum() - 4 / 3 * np.pi * R[-1] ** 3) > 1e-7 * 4 / 3 * np.pi * R[-1] ** 3:
        vs.append(viol(pre + "|total_volume", "volumes do not sum to (4/3) pi R_T^3", case))
    return {"violations": vs, "cells": n}


PG_GETTERS = {"volumes": lambda pg: pg.get_all_position_volumes(),
              "adjacency": lambda pg: pg.get_adjacency_of_position_grid(),
              "borders": lambda pg: pg.get_borders_of_position_grid(),
              "distances": lambda pg: pg.get_distances_of_position_grid()}


def order_case(case):
    """all getter words of length <= 3 on ONE PositionGrid instance: every observation must equal the first call on a
    fresh object (a getter that squares a cached array in place, or fills a cache another getter reads, shows up here)"""
    o, t = case["o"], case["t"]
    bad, nwords, calls = explore_getter_orders(lambda: PositionGrid(o, t, position_grid_cartesian=False), PG_GETTERS, depth=3)
    vs = []
    for w, pos, g, exp, obs in bad[:3]:
        vs.append(viol(f"C05|getter_order|{o}|t={t}|word={'>'.join(w[:pos + 1])}", f"{g} after {w[:pos]} on the same "
                       "PositionGrid differs from the first call on a fresh object", dict(case, word=w), exp, obs))
    return {"violations": vs, "cells": 0, "words": nwords, "calls": calls}


def cases(tier):
    out = []
    if tier == "quick":
        Ns, rads = list(range(4, 46)) + [63, 64], RADIALS
    else:
        Ns, rads = list(range(4, 65)), RADIALS_T
    for alg in ("ico", "cube3D", "randomS"):
        for N in Ns:
            for tname, tv in rads:
                out.append({"alg": alg, "N": N, "t": tname, "radii_nm": tv})
        for N in (5, 12, 33):                                # two radii very close together / very different scales
            for tname, tv in CLOSE_RADII:
                out.append({"alg": alg, "N": N, "t": tname, "radii_nm": tv})
        for N in (6, 17, 42) + ((98, 162) if tier == "quick" else (98, 162, 200)):     # many shells / large N
            for tname, tv in MANY_SHELLS if N <= 42 else RADIALS[2:4]:
                out.append({"alg": alg, "N": N, "t": tname, "radii_nm": tv})
    # every ascending 4-subset of the tenths 0.1 .. 0.8 and 5-subset of 0.1 .. 0.7 as radial grid (all the coincidences a
    # "looks equidistant" shortcut could key on: equal first and mean step, equal first and last step, ...)
    import itertools
    tenths = [str(F(i, 10)) for i in range(1, 9)]
    for T_, pool in ((4, tenths), (5, tenths[:7])):
        for combo in itertools.combinations(pool, T_):
            vals = [str(float(F(x))) for x in combo]
            out.append({"alg": "ico", "N": 5, "t": "[" + ", ".join(vals) + "]", "radii_nm": list(combo)})
    # irregular direction grids far beyond the N menu (very short Voronoi edges appear for some randomS sizes)
    for N in sorted(set(range(66, 273, 6 if tier == "quick" else 2)) | {110, 210}):
        out.append({"alg": "randomS", "N": N, "t": "[0.1,0.2]", "radii_nm": ["0.1", "0.2"]})
    return out


def _label(c):
    return f"{c['alg']}_{c['N']} {c['t']}"


def seq_cases(tier):
    """Several shell-mode position grids built in ONE fresh process (DESIGN 9.12): radial grids agreeing in length, first and
    last radius but differing inside; the same radial grid under another direction grid of the same N; a grid again."""
    def c(alg, N, tvals):
        return {"alg": alg, "N": N, "t": "[" + ", ".join(tvals) + "]", "radii_nm": list(tvals)}
    ra, rb, rc = ["0.1", "0.2", "0.3", "0.4"], ["0.1", "0.25", "0.3", "0.4"], ["0.1", "0.2", "0.3", "0.45"]
    out = []
    for alg, other in (("ico", "randomS"), ("cube3D", "ico"), ("randomS", "cube3D")):
        for N in ((20,) if tier == "quick" else (8, 12, 20, 42)):
            out.append({"seq": [c(alg, N, ra), c(alg, N, rb), c(alg, N, ra)]})
            out.append({"seq": [c(alg, N, ra), c(other, N, ra), c(alg, N, rc)]})
            out.append({"seq": [c(alg, N, rb), c(alg, N + 1, rb), c(alg, N, ["0.25"]), c(alg, N, rb)]})
    return out


def run(ctx):
    rep = Report(PROPERTY, "exploration")
    cs = cases(ctx.tier)
    scs = seq_cases(ctx.tier)
    sres = ctx.pmap(Isolated(Sequence(run_case, _label)), scs, chunksize=1, recheck=1)
    for r in sres:
        rep.add_violations(r["violations"])
    res = ctx.pmap(run_case, cs, chunksize=2, recheck=3)
    ocs = [{"order": True, "o": o, "t": t} for o, t in (("ico_7", "[0.1, 0.25, 0.3]"), ("cube3D_5", "0.3"),
                                                        ("randomS_9", "[0.3, 0.1, 0.25, 0.7]"))]
    ores = ctx.pmap(order_case, ocs, chunksize=1, recheck=1)
    for r in res + ores:
        rep.add_violations(r["violations"])
    rep.coverage = {
        "histories_in_one_process": len(scs), "grids_in_histories": sum(r["members"] for r in sres),
        "evaluations": sum(r["cells"] ** 2 for r in res),
        "distinct_nontrivial": len(cs),
        "rule": "3 direction algorithms x N menu x radial grids (1..6 radii, unequal increments, unsorted, "
                "list/tuple/linspace/range syntax); every cell volume and every ordered pair (adjacency, border, distance) "
                "against closed forms on the arc-clipping oracle; evaluations = ordered pairs compared",
        "samples": collect_samples([f"{c['alg']}_{c['N']} {c['t']}" for c in cs], 6),
        "getter_order_words": sum(r["words"] for r in ores), "getter_order_calls": sum(r["calls"] for r in ores),
        "exhaustive": True, "bound": {"N": "4..45, 63, 64" if ctx.tier == "quick" else "4..64"},
    }
    rep.assumptions = ["relative tolerance 1e-7", "radii of the oracle come from exact rationals, not from the parser"]
    return rep


def replay(case):
    if case.get("order"):
        return order_case(case)["violations"]
    if "seq" in case:
        return Sequence(run_case, _label)(case)["violations"]
    return run_case(case)["violations"]

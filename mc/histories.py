"""Getter-order histories on one live object (shape A in miniature).

For an object factory and a dict of named getters, ALL words of length <= depth over the getter names are executed on a
fresh object each; every observation must equal the reference observation = first call of that getter on a fresh object.
A getter that mutates shared state (a cache filled by another getter, an array squared in place, a template matrix whose
.data is overwritten) shows up as a word whose later observation differs from the reference.
"""
from __future__ import annotations

import hashlib
import itertools

import numpy as np


def obs_digest(x) -> str:
    h = hashlib.sha256()
    if hasattr(x, "tocoo"):
        m = x.tocoo()
        h.update(str(m.shape).encode())
        h.update(np.asarray(m.row).tobytes())
        h.update(np.asarray(m.col).tobytes())
        h.update(np.ascontiguousarray(np.asarray(m.data, dtype=float)).tobytes())
    else:
        a = np.ascontiguousarray(np.asarray(x, dtype=float))
        h.update(str(a.shape).encode())
        h.update(a.tobytes())
    return h.hexdigest()[:20]


def explore_getter_orders(make, getters: dict, depth: int = 3, words=None):
    """returns (violating_words, n_words, n_calls); violating word = (word, position, getter, expected, observed)"""
    names = list(getters)
    ref = {}
    for g in names:
        try:
            ref[g] = obs_digest(getters[g](make()))
        except Exception as e:      # the getter fails on a fresh object: that IS its reference observation here (whether
            ref[g] = f"raises {type(e).__name__}"   # it may fail is judged by the driver's direct comparison, not here)
    bad = []
    calls = len(names)
    if words is None:
        words = [w for d in range(2, depth + 1) for w in itertools.product(names, repeat=d)]
    for w in words:
        obj = make()
        for pos, g in enumerate(w):
            calls += 1
            try:
                o = obs_digest(getters[g](obj))
            except Exception as e:
                if ref[g] == f"raises {type(e).__name__}":
                    continue
                bad.append((list(w), pos, g, ref[g], f"raises {type(e).__name__}: {str(e)[:60]}"))
                break
            if o != ref[g]:
                bad.append((list(w), pos, g, ref[g], o))
                break
    return bad, len(words), calls

#!/bin/bash
# runs every quick (or $1=thorough) check, prints one line each
TIER=${1:-quick}
for i in ${CHECKS:-$(seq -w 1 20)}; do
  s=$(date +%s)
  out=$(/venv/bin/python "$(dirname "$0")/../run_check.py" C$i --tier $TIER 2>&1); rc=$?
  e=$(date +%s)
  echo "C$i rc=$rc $((e-s))s $(echo "$out" | grep -c '^VIOLATION') viol, $(echo "$out" | grep -c '^KNOWN-FINDING') known; $(echo "$out" | grep -E 'HARNESS' | head -1 | cut -c1-150)"
done

# usage: ttest.sh PROP K "tests"  -> runs tests on patched scratch worktree, prints tail
PROP=$1; K=$2; TESTS=$3
WT=/tmp/scratch/tt_${PROP}_${K}_$$
git -C /repo worktree add -q --detach $WT HEAD && git -C $WT apply ${SEEDDIR:-/tmp/seed}/$PROP.out/patch$K.diff && ( cd $WT && PYTHONPATH=$WT timeout 3000 /venv/bin/python -m pytest -q -p no:cacheprovider --timeout=900 $TESTS 2>&1 | tail -2 )
git -C /repo worktree remove --force $WT

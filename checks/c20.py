"""C20 -- persisted grids and energy tables are read back value- and order-exact.

Shape B: (i) every small grid specification is written with GridWriter and read with GridReader, compared byte for byte
(dtype, shape, values, sparse format and stored entry order) with what a separately constructed FullGrid returns in memory;
(ii) every xvg header shape of the statement's family x legend counts x row counts is written and parsed by EnergyReader.
"""
from __future__ import annotations

import itertools
import os
import shutil
import tempfile

import numpy as np
import pandas as pd
from scipy.sparse import issparse

from mc.core import Report, viol, collect_samples

from molgri.io import GridWriter, GridReader, EnergyReader
from molgri.space.fullgrid import FullGrid

PROPERTY = "C20"

LEGENDS = ["Potential", "LJ (SR):M1-M2", "LJ (SR)", "Box-XX", "Box-X", "Disper. corr.", "a b  c", "#x", "s1", "Coulomb (SR)", "Pres. DC (bar)", "Pressure",
           "Constr. rmsd", "Kinetic En.", "Temperature", "Coul-SR:SOL -SOL ", " Potential", "Vir-XX, corr.", "legend s2", "@ s3", "Box-X (\u00c5)", "\u0394E (kJ/mol)"]
AT_LINES = ['@    title "GROMACS Energies"', '@    xaxis  label "Time (ps)"', '@    yaxis  label "(kJ/mol)"', "@TYPE xy",
            "@ view 0.15, 0.15, 0.75, 0.85", "@ legend on", "@ legend box on", "@ legend loctype view",
            "@ legend 0.78, 0.8", "@ legend length 2"]
VALUES = ["-123.456789", "0.000000", "0.000001", "17.250000", "-0.500000", "1234567.125000", "3.141593", "-42.000000",
          "99.999999", "5.000000", "-7.770000"]


# ---------------------------------------------------------------------------------------------- (i) grids
def sparse_sig(m):
    m2 = m
    sig = {"format": m2.format, "shape": list(m2.shape), "dtype": str(m2.dtype)}
    if m2.format == "coo":
        sig.update(row=m2.row.tobytes().hex(), col=m2.col.tobytes().hex(), data=np.asarray(m2.data).tobytes().hex())
    else:
        sig.update(indices=m2.indices.tobytes().hex(), indptr=m2.indptr.tobytes().hex(),
                   data=np.asarray(m2.data).tobytes().hex())
    return sig


def grid_case(case):
    b, o, t, cart, f = case["b"], case["o"], case["t"], case["cartesian"], case["f"]
    pre = f"C20|grid|b={b}|o={o}|t={t}|cart={cart}|f={f}"
    vs = []
    d = tempfile.mkdtemp(prefix="c20_", dir=case["tmp"])
    try:
        try:
            gw = GridWriter(b, o, t, factor=f, position_grid_cartesian=cart)
            fg = FullGrid(b, o, t, factor=f, position_grid_cartesian=cart)
            mem = {"array": np.asarray(fg.get_full_grid_as_array()), "volumes": np.asarray(fg.get_total_volumes()),
                   "borders": fg.get_full_borders(), "distances": fg.get_full_distances(),
                   "adjacency": fg.get_full_adjacency()}
        except Exception as e:
            return {"violations": [], "skipped": f"{type(e).__name__}", "n": 0}
        p = {k: os.path.join(d, k + (".npy" if k in ("array", "volumes") else ".npz")) for k in mem}
        try:
            gw.save_full_grid(p["array"])
            gw.save_volumes(p["volumes"])
            gw.save_borders_array(p["borders"])
            gw.save_distances_array(p["distances"])
            gw.save_adjacency_array(p["adjacency"])
            gr = GridReader()
            back = {"array": gr.load_full_grid(p["array"]), "volumes": gr.load_volumes(p["volumes"]),
                    "borders": gr.load_borders_array(p["borders"]), "distances": gr.load_distances_array(p["distances"]),
                    "adjacency": gr.load_adjacency_array(p["adjacency"])}
        except Exception as e:
            return {"violations": [viol(pre + "|raises", f"write/read raised {type(e).__name__}: {str(e)[:120]}", case)],
                    "n": 0}
        for k in ("array", "volumes"):
            a, c = mem[k], np.asarray(back[k])
            if a.shape != c.shape or a.dtype != c.dtype or a.tobytes() != c.tobytes():
                vs.append(viol(pre + f"|{k}", f"{k} read back differs from the in-memory getter (shape/dtype/bytes)", case,
                               expected=[list(a.shape), str(a.dtype)], observed=[list(c.shape), str(c.dtype)]))
        for k in ("borders", "distances", "adjacency"):
            if not issparse(back[k]):
                vs.append(viol(pre + f"|{k}|not_sparse", f"{k} read back is not sparse", case))
                continue
            s1, s2 = sparse_sig(mem[k]), sparse_sig(back[k])
            if s1 != s2:
                diff = [q for q in s1 if s1[q] != s2.get(q)]
                vs.append(viol(pre + f"|{k}", f"{k} read back differs from the in-memory matrix in {diff}", case,
                               expected={q: str(s1[q])[:40] for q in diff}, observed={q: str(s2.get(q))[:40] for q in diff}))
        return {"violations": vs, "n": int(mem["array"].shape[0])}
    finally:
        shutil.rmtree(d, ignore_errors=True)


def grid_history_case(case):
    """write / read histories that REUSE the same paths (and the same reader instance) for different grids"""
    d = tempfile.mkdtemp(prefix="c20h_", dir=case["tmp"])
    vs = []
    steps = 0
    try:
        P = {k: os.path.join(d, k + (".npy" if k in ("array", "volumes") else ".npz"))
             for k in ("array", "volumes", "borders", "distances", "adjacency")}
        shared = GridReader()
        for si, (b, o, t, cart) in enumerate(case["sequence"]):
            steps += 1
            key = f"C20|path_reuse|seq={case['name']}|step={si}|b={b}|o={o}|t={t}|cart={cart}"
            try:
                gw = GridWriter(b, o, t, factor=2, position_grid_cartesian=cart)
                fg = FullGrid(b, o, t, factor=2, position_grid_cartesian=cart)
                gw.save_full_grid(P["array"]); gw.save_volumes(P["volumes"]); gw.save_borders_array(P["borders"])
                gw.save_distances_array(P["distances"]); gw.save_adjacency_array(P["adjacency"])
                mem = {"array": np.asarray(fg.get_full_grid_as_array()), "volumes": np.asarray(fg.get_total_volumes()),
                       "borders": fg.get_full_borders(), "distances": fg.get_full_distances(),
                       "adjacency": fg.get_full_adjacency()}
                for rname, gr in (("shared_reader", shared), ("fresh_reader", GridReader())):
                    back = {"array": gr.load_full_grid(P["array"]), "volumes": gr.load_volumes(P["volumes"]),
                            "borders": gr.load_borders_array(P["borders"]), "distances": gr.load_distances_array(P["distances"]),
                            "adjacency": gr.load_adjacency_array(P["adjacency"])}
                    for k in ("array", "volumes"):
                        a, c = mem[k], np.asarray(back[k])
                        if a.shape != c.shape or a.tobytes() != c.tobytes():
                            vs.append(viol(key + f"|{rname}|{k}", f"{k} read back after re-using the path for another grid is "
                                           "not the grid just written (stale data)", case, expected=list(a.shape),
                                           observed=list(c.shape)))
                    for k in ("borders", "distances", "adjacency"):
                        if sparse_sig(mem[k]) != sparse_sig(back[k]):
                            vs.append(viol(key + f"|{rname}|{k}", f"{k} read back after re-using the path is not the matrix "
                                           "just written", case))
            except Exception as e:
                vs.append(viol(key + "|raises", f"{type(e).__name__}: {str(e)[:100]}", case))
            if vs:
                break
        return {"violations": vs[:4], "steps": steps}
    finally:
        shutil.rmtree(d, ignore_errors=True)


# ---------------------------------------------------------------------------------------------- (ii) xvg
def make_xvg(h, total, nleg, nrows, rot, times="distinct"):
    legends = [LEGENDS[(rot + i) % len(LEGENDS)] for i in range(nleg)]
    n_at = max(total - h, nleg)
    lines = [f"# comment line {i} of the GROMACS banner" for i in range(h)]
    for i in range(n_at - nleg):
        lines.append(AT_LINES[i % len(AT_LINES)])
    for i, lg in enumerate(legends):
        lines.append(f'@ s{i} legend "{lg}"')
    rows = []
    for rI in range(nrows):
        vals = [VALUES[(rI * 3 + c * 5 + rot) % len(VALUES)] for c in range(nleg)]
        tm = f"{rI * 0.5:.6f}"
        if times == "rerun":          # gmx rerun of single frames: every line reports t = 0
            tm = "0.000000"
        elif times == "negative":     # equilibration part of a run: the time axis starts below zero
            tm = f"{(rI - 2) * 0.5:.6f}"
        elif times == "restart" and rI >= 1:   # a continued run repeats the restart frame's time stamp
            tm = f"{(rI - 1) * 0.5:.6f}"
        rows.append([tm] + vals)
        lines.append("    " + "  ".join(f"{x:>12}" for x in [tm] + vals))
    return "\n".join(lines) + "\n", legends, rows


def xvg_case(case):
    h, total, nleg, nrows, rot = case["h"], case["total"], case["nleg"], case["nrows"], case["rot"]
    pre = f"C20|xvg|hash={h}|header={max(total, h + nleg)}|legends={nleg}|rows={nrows}|rot={rot}" + \
          ("" if case.get("times", "distinct") == "distinct" else f"|times={case['times']}")
    text, legends, rows = make_xvg(h, total, nleg, nrows, rot, case.get("times", "distinct"))
    d = tempfile.mkdtemp(prefix="c20x_", dir=case["tmp"])
    vs = []
    try:
        # file names: the type is decided by the END of the path; other dots, blanks and look-alike parts are harmless
        k_ = h + nleg + nrows
        path = os.path.join(d, ("energy.xvg", "run.csv.xvg", "my energy.v2.xvg", "xvg.csv_energy.xvg")[k_ % 4])
        with open(path, "w", encoding="utf-8") as fh:
            fh.write(text)
        want_cols = ["Time [ps]"] + legends
        want = np.array([[float(x) for x in r] for r in rows])
        try:
            df = EnergyReader(path).load_energy()
        except Exception as e:
            return {"violations": [viol(pre + "|raises", f"load_energy raised {type(e).__name__}: {str(e)[:120]}", case)]}
        if list(df.columns) != want_cols:
            vs.append(viol(pre + "|columns", "columns are not time + legends in legend order", case, expected=want_cols,
                           observed=[str(c) for c in df.columns]))
        got = df.to_numpy()
        if got.shape != want.shape:
            vs.append(viol(pre + "|rows", "not one row per data line", case, expected=list(want.shape),
                           observed=list(got.shape)))
        else:
            try:
                if not np.array_equal(got.astype(float), want):
                    vs.append(viol(pre + "|values", "values/row order differ from the file", case,
                                   expected=want.tolist()[:2], observed=got.tolist()[:2]))
            except Exception:
                vs.append(viol(pre + "|values_type", "non-numeric values parsed", case, observed=str(got[:1])))
        if not vs:
            # call history on ONE reader instance: load, load again, every single column, load again
            try:
                er = EnergyReader(path)
                seq = [("load_energy#1", er.load_energy().to_numpy(dtype=float)),
                       ("load_energy#2", er.load_energy().to_numpy(dtype=float))]
                for c, lg in enumerate(legends):
                    col = np.asarray(er.load_single_energy_column(lg), dtype=float)
                    if col.shape != want[:, c + 1].shape or not np.array_equal(col, want[:, c + 1]):
                        vs.append(viol(pre + "|instance_reuse|single_column", f"column '{lg}' read as call {c + 3} on the same "
                                       "EnergyReader instance differs from the file", case, expected=want[:, c + 1].tolist()[:3],
                                       observed=col.tolist()[:3]))
                        break
                seq.append(("load_energy#last", er.load_energy().to_numpy(dtype=float)))
                for name, g in seq:
                    if g.shape != want.shape or not np.array_equal(g, want):
                        vs.append(viol(pre + f"|instance_reuse|{name}", f"{name} on the same EnergyReader instance differs from "
                                       "the file", case, expected=list(want.shape), observed=list(g.shape)))
                        break
            except Exception as e:
                vs.append(viol(pre + "|instance_reuse|raises", f"{type(e).__name__}: {str(e)[:100]}", case))
        if not vs:
            for c, lg in enumerate(legends):
                try:
                    col = EnergyReader(path).load_single_energy_column(lg)
                    if not np.array_equal(np.asarray(col, dtype=float), want[:, c + 1]):
                        vs.append(viol(pre + "|single_column", f"single column '{lg}' differs", case))
                        break
                except Exception as e:
                    vs.append(viol(pre + "|single_column_raises", f"{type(e).__name__} for '{lg}'", case))
                    break
            try:
                cpath = os.path.join(d, ("energy.csv", "energy.xvg.csv", "frame of run.xvg.v2.csv")[k_ % 3])
                df.to_csv(cpath)
                df2 = EnergyReader(cpath).load_energy()
                if list(df2.columns) != list(df.columns) or not np.array_equal(df2.to_numpy(dtype=float),
                                                                                df.to_numpy(dtype=float)) \
                        or list(df2.index) != list(df.index):
                    vs.append(viol(pre + "|csv_roundtrip", "csv written from the frame does not read back identically", case))
            except Exception as e:
                vs.append(viol(pre + "|csv_raises", f"{type(e).__name__}: {str(e)[:100]}", case))
        return {"violations": vs}
    finally:
        shutil.rmtree(d, ignore_errors=True)


def run(ctx):
    rep = Report(PROPERTY, "exploration")
    tmp = tempfile.mkdtemp(prefix="verif_c20_")
    try:
        gcs = []
        radials = ["0.3", "[0.2,0.3]", "[0.1,0.2,0.4]"]
        box = range(1, 6) if not ctx.thorough else range(1, 8)
        for nb, no in itertools.product(box, box):
            for t in radials:
                for cart in (False, True):
                    gcs.append({"b": str(nb), "o": str(no), "t": t, "cartesian": cart, "f": 2, "tmp": tmp})
        for b, o, t, cart, f in [("cube4D_8", "ico_12", "[0.2,0.3]", False, 1), ("randomQ_6", "cube3D_9", "[0.1,0.2,0.4]", True, 2),
                                 ("cube4D_9", "randomS_8", "linspace(0.2,0.4,4)", True, 0.5), ("1", "ico_20", "[0.2,0.3]", True, 2),
                                 ("cube4D_16", "ico_5", "[0.2,0.3]", False, 2), ("randomQ_5", "randomS_13", "0.3", False, 2)]:
            gcs.append({"b": b, "o": o, "t": t, "cartesian": cart, "f": f, "tmp": tmp})
        gres = ctx.pmap(grid_case, gcs, chunksize=2, recheck=2)
        G = [("1", "4", "[0.2,0.3]", False), ("2", "3", "[0.1,0.2,0.4]", False), ("4", "5", "0.3", True),
             ("cube4D_5", "ico_6", "[0.2,0.3]", True)]
        hcs = []
        import itertools as _it
        for a, b_ in _it.permutations(range(len(G)), 2):
            hcs.append({"history": True, "name": f"{a}{b_}{a}", "sequence": [G[a], G[b_], G[a]], "tmp": tmp})
        hres = ctx.pmap(grid_history_case, hcs, chunksize=1, recheck=1)
        for r in hres:
            rep.add_violations(r["violations"])
        xcs = []
        for h in range(0, 14):
            for total in (13, 14, 20):
                for nleg in range(1, 11):
                    for nrows in (1, 2, 7):
                        xcs.append({"h": h, "total": total, "nleg": nleg, "nrows": nrows, "rot": (h + nleg + nrows) % len(LEGENDS),
                                    "tmp": tmp})
        for times in ("rerun", "restart", "negative"):       # repeated time stamps: rows must still be one per data line
            for h in (0, 5, 13):
                for nleg in (1, 4, 10):
                    for nrows in (2, 7):
                        xcs.append({"h": h, "total": 14, "nleg": nleg, "nrows": nrows, "rot": (h + nleg) % len(LEGENDS), "times": times,
                                    "tmp": tmp})
        # long tables (pandas reads in chunks; a trajectory easily has 10^5 frames)
        for nrows, nleg in ((1500, 3), (1500, 10), (70000, 2)):
            xcs.append({"h": 7, "total": 20, "nleg": nleg, "nrows": nrows, "rot": nleg, "tmp": tmp})
        if ctx.thorough:
            for h in range(0, 14):
                for total in (13, 15, 16, 25):
                    for nleg in range(1, 11):
                        for rot in range(12):
                            xcs.append({"h": h, "total": total, "nleg": nleg, "nrows": 3, "rot": rot, "tmp": tmp})
        xres = ctx.pmap(xvg_case, xcs, chunksize=16, recheck=2)
        for r in gres + xres:
            rep.add_violations(r["violations"])
        done = [c for c, r in zip(gcs, gres) if "skipped" not in r]
        rep.coverage = {
            "evaluations": len(done) * 5 + len(xcs),
            "distinct_nontrivial": len(done) + len(xcs),
            "rule": "(i) the n_b x n_o box x 3 radial grids x both modes (constructible ones) + 6 mid-size grids: five files "
                    "written and read back, compared byte for byte incl. sparse format and entry order; (ii) xvg files for "
                    "every '#'-count 0..13 x header length {13,14,20} x 1..10 legends x {1,2,7} rows with rotating legend "
                    "texts and values; distinct_nontrivial = grids + xvg files (all distinct)",
            "samples": collect_samples([f"{c['b']}/{c['o']}/{c['t']}/{c['cartesian']}" for c in done], 3) +
                       collect_samples([{k: c[k] for k in ("h", "total", "nleg", "nrows")} for c in xcs], 3),
            "path_reuse_histories": len(hcs), "path_reuse_steps": sum(r["steps"] for r in hres),
            "grids_round_tripped": len(done), "grids_not_constructible": len(gcs) - len(done), "xvg_files": len(xcs),
            "exhaustive": True, "bound": {"hash_lines": "0..13", "legends": "1..10", "rows": [1, 2, 7]},
        }
        rep.assumptions = ["legend texts contain no double quotes", "xvg values are written in GROMACS fixed format"]
        return rep
    finally:
        shutil.rmtree(tmp, ignore_errors=True)


def replay(case):
    tmp = tempfile.mkdtemp(prefix="verif_c20_")
    try:
        c = dict(case, tmp=tmp)
        if c.get("history"):
            return grid_history_case(c)["violations"]
        return (grid_case(c) if "b" in c else xvg_case(c))["violations"]
    finally:
        shutil.rmtree(tmp, ignore_errors=True)

#!/bin/bash
# usage: tools/try_patch.sh <patch-file | -R:<commit>> <Cxx> [tier]   -- runs a check against a scratch worktree with a patch applied
set -u
PATCH="$1"; PROP="$2"; TIER="${3:-quick}"
WT=/tmp/scratch/wt_$$
mkdir -p /tmp/scratch
git -C /repo worktree add -q --detach "$WT" HEAD || exit 3
if [[ "$PATCH" == -R:* ]]; then
  git -C "$WT" revert --no-commit "${PATCH#-R:}" >/dev/null || { echo "revert failed"; git -C /repo worktree remove --force "$WT"; exit 3; }
else
  git -C "$WT" apply "$PATCH" || { echo "apply failed"; git -C /repo worktree remove --force "$WT"; exit 3; }
fi
VERIF_EVIDENCE_DIR=/tmp/scratch/evidence_scratch VERIF_REPO="$WT" /venv/bin/python /verif/run_check.py "$PROP" --tier "$TIER" 2>&1 | grep -E "VIOLATION|KNOWN-FINDING|SUMMARY|HARNESS|key=" | cut -c1-260 | head -${LINES_MAX:-12}
rc=${PIPESTATUS[0]}
git -C /repo worktree remove --force "$WT"
echo "exit=$rc"

#!/bin/bash
# usage: tools/seed_eval.sh <PROP> <k> "<test files>"   -- validates seeded change k of /tmp/seed/<PROP>.out and runs the check on it
PROP="$1"; K="$2"; TESTS="$3"
OUT=${SEEDDIR:-/tmp/seed}/$PROP.out
WT=/tmp/scratch/se_${PROP}_$K
mkdir -p /tmp/scratch
git -C /repo worktree add -q --detach "$WT" HEAD || exit 3
cp $OUT/demo$K.py $WT/_demo.py
( cd $WT && PYTHONPATH=$WT timeout 900 /venv/bin/python _demo.py >/tmp/scratch/demo_clean.log 2>&1 ); echo "demo on clean tree: exit=$?"
if git -C "$WT" apply --exclude=_demo.py "$OUT/patch$K.diff"; then echo "patch applied"; else echo "PATCH DOES NOT APPLY"; git -C /repo worktree remove --force "$WT"; exit 3; fi
( cd $WT && PYTHONPATH=$WT timeout 900 /venv/bin/python _demo.py >/tmp/scratch/demo_patched.log 2>&1 ); echo "demo on patched tree: exit=$?"; tail -3 /tmp/scratch/demo_patched.log | cut -c1-200
if [ -n "$TESTS" ]; then ( cd $WT && PYTHONPATH=$WT timeout 3000 /venv/bin/python -m pytest -q -p no:cacheprovider --timeout=900 $TESTS 2>&1 | tail -3 ); fi
VERIF_EVIDENCE_DIR=/tmp/scratch/evidence_scratch VERIF_REPO="$WT" /venv/bin/python ${VERIF_DIR:-/verif}/run_check.py "$PROP" --tier quick 2>&1 | grep -E "VIOLATION|SUMMARY|HARNESS|key=" | cut -c1-260 | head -6
echo "check exit=${PIPESTATUS[0]}"
rm -f $WT/_demo.py
git -C /repo worktree remove --force "$WT"

"""Small rigid test molecules (written as .xyz files, read back through the package's OneMoleculeReader) and an
independent scalar-last quaternion -> rotation matrix formula (O-RIGID)."""
from __future__ import annotations

import os

import numpy as np

MOLECULES = {
    "He": [("He", 0.3, -0.2, 0.1)],
    "HF": [("H", 0.1, 0.2, 0.3), ("F", 0.1, 0.2, 1.22)],
    "H2O": [("O", 0.0, 0.0, -0.0016), ("H", 0.0, 0.7541, 0.5968), ("H", 0.0, -0.7541, 0.5968)],
    "NH3": [("N", 0.0, 0.0, 0.1173), ("H", 0.0, 0.9377, -0.2738), ("H", 0.8121, -0.4689, -0.2738),
            ("H", -0.8121, -0.4689, -0.2738)],
    "CHFClBr": [("C", 0.05, -0.03, 0.02), ("H", 0.05, -0.03, 1.11), ("F", 1.29, -0.03, -0.43),
                ("Cl", -0.80, 1.43, -0.57), ("Br", -0.92, -1.61, -0.62)],
    "glucose": [("C", 35.884, 30.895, 49.120), ("C", 36.177, 29.853, 50.124), ("C", 37.296, 30.296, 51.074),
                ("C", 38.553, 30.400, 50.259), ("C", 38.357, 31.290, 49.044), ("C", 39.559, 31.209, 48.082),
                ("O", 34.968, 30.340, 48.234), ("O", 34.923, 29.775, 50.910), ("O", 37.441, 29.265, 52.113),
                ("O", 39.572, 30.954, 51.086), ("O", 37.155, 30.858, 48.364), ("O", 39.261, 32.018, 46.920)],
    "bent4": [("C", 0.0, 0.0, 0.0), ("N", 1.2, 0.1, 0.0), ("O", 1.9, 1.3, 0.0), ("S", -0.7, -1.4, 0.0)],   # planar, asymmetric
}


# four-site water: the fourth site is a massless dummy (element X) - centre of MASS and centre of geometry differ
MOLECULES["H2O_dummy"] = [("O", 0.0, 0.0, 0.0), ("H", 0.0, 0.7570, 0.5860), ("H", 0.0, -0.7570, 0.5860), ("X", 0.0, 0.0, 0.1500)]
# ideal tetrahedron (all bonds 1.6 A) whose substituents differ only by mass: the unweighted inertia tensor is isotropic
_t = 1.6 / 3 ** 0.5
MOLECULES["CX4_ideal"] = [("C", 0.0, 0.0, 0.0), ("F", _t, _t, _t), ("Cl", _t, -_t, -_t), ("Br", -_t, _t, -_t), ("I", -_t, -_t, _t)]
MOLECULES["CHFClBr_mirror"] = [(el, -x, y, z) for el, x, y, z in MOLECULES["CHFClBr"]]      # the other enantiomer


def file_coords(name: str) -> np.ndarray:
    """coordinates (Angstrom) exactly as the file written by write_xyz() stores them; 'H2O@gro' / 'H2O@pdb' = other formats"""
    base, _, fmt = name.partition("@")
    raw = np.array([a[1:] for a in MOLECULES[base]], dtype=float)
    if fmt == "gro":        # nm with three decimals
        return np.array([[float(f"{v / 10:8.3f}") * 10 for v in row] for row in raw])
    if fmt == "pdb":        # Angstrom with three decimals
        return np.array([[float(f"{v:8.3f}") for v in row] for row in raw])
    return np.array([[float(f"{v:.6f}") for v in row] for row in raw])


def write_xyz(name: str, directory: str) -> str:
    base, _, fmt = name.partition("@")
    if fmt == "gro":
        path = os.path.join(directory, f"{base}.gro")
        atoms = MOLECULES[base]
        with open(path, "w") as f:
            f.write(f"{base}\n{len(atoms):5d}\n")
            for i, (el, x, y, z) in enumerate(atoms):
                f.write(f"{1:5d}{'MOL':<5s}{el:>5s}{i + 1:5d}{x / 10:8.3f}{y / 10:8.3f}{z / 10:8.3f}\n")
            f.write("   3.00000   3.00000   3.00000\n")
        return path
    if fmt == "pdb":
        path = os.path.join(directory, f"{base}.pdb")
        atoms = MOLECULES[base]
        with open(path, "w") as f:
            f.write("CRYST1   30.000   30.000   30.000  90.00  90.00  90.00 P 1           1\n")
            for i, (el, x, y, z) in enumerate(atoms):
                f.write(f"ATOM  {i + 1:5d} {el:<4s} MOL A   1    {x:8.3f}{y:8.3f}{z:8.3f}  1.00  0.00          {el:>2s}\n")
            f.write("END\n")
        return path
    path = os.path.join(directory, f"{name}.xyz")
    atoms = MOLECULES[name]
    with open(path, "w") as f:
        f.write(f"{len(atoms)}\n{name}\n")
        for el, x, y, z in atoms:
            f.write(f"{el} {x:.6f} {y:.6f} {z:.6f}\n")
    return path


def quat_to_matrix(q):
    """scalar-LAST unit quaternion (x, y, z, w) -> 3x3 rotation matrix (own formula, no scipy)."""
    x, y, z, w = np.asarray(q, dtype=float) / np.linalg.norm(q)
    return np.array([
        [1 - 2 * (y * y + z * z), 2 * (x * y - z * w), 2 * (x * z + y * w)],
        [2 * (x * y + z * w), 1 - 2 * (x * x + z * z), 2 * (y * z - x * w)],
        [2 * (x * z - y * w), 2 * (y * z + x * w), 1 - 2 * (x * x + y * y)]])


def cube_rotations():
    """the 24 proper rotations of the cube as scalar-last quaternions"""
    qs = []
    s = 0.5 ** 0.5
    base = [(0, 0, 0, 1), (1, 0, 0, 0), (0, 1, 0, 0), (0, 0, 1, 0)]
    base += [(s, 0, 0, s), (-s, 0, 0, s), (0, s, 0, s), (0, -s, 0, s), (0, 0, s, s), (0, 0, -s, s)]
    base += [(s, s, 0, 0), (s, -s, 0, 0), (s, 0, s, 0), (s, 0, -s, 0), (0, s, s, 0), (0, s, -s, 0)]
    for a in (0.5, -0.5):
        for b in (0.5, -0.5):
            for c in (0.5, -0.5):
                base.append((a, b, c, 0.5))
    return np.array(base, dtype=float)


def generic_quaternions(n, stream=20240917):
    rng = np.random.Generator(np.random.PCG64(stream))
    q = rng.standard_normal((n, 4))
    return q / np.linalg.norm(q, axis=1)[:, None]


def fibonacci_directions(n):
    i = np.arange(n) + 0.5
    phi = np.arccos(1 - 2 * i / n)
    th = np.pi * (1 + 5 ** 0.5) * i
    return np.stack([np.cos(th) * np.sin(phi), np.sin(th) * np.sin(phi), np.cos(phi)], axis=1)


def special_quaternions():
    """structured corner cases: rotations by tiny angles, by angles next to pi and 2*pi, w ~ 0 with both signs, and the
    negated representatives -q of ordinary rotations (same rotation, other sheet of the double cover)"""
    out = []
    axes = [(1, 0, 0), (0, 1, 0), (0, 0, 1), (1, 1, 1), (0.3, -0.5, 0.8)]
    degs = [0.01, 0.1, 0.4, 0.6, 1.0, 179.5, 180.0, 180.5, 359.6, 359.99, 90.0, 120.0]
    for ax in axes:
        a = np.array(ax, dtype=float) / np.linalg.norm(ax)
        for d in degs:
            h = np.deg2rad(d) / 2
            out.append(np.concatenate([np.sin(h) * a, [np.cos(h)]]))
    out = np.array(out)
    neg = -out[::5]
    unnorm = 3.0 * out[3::7]           # Rotation.from_quat normalises its input
    return np.concatenate([out, neg, unnorm])

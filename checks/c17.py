"""C17 -- grid names normalise to one valid (algorithm, N) or are rejected with ValueError.

Shape B over the token language: EVERY name t1_..._tm (m <= 4) over the token alphabet plus m = 5 (6) over a reduced one, both roles.
Only constraints stated by the property are checked (never a predicted verdict where the statement allows both).
"""
from __future__ import annotations

import itertools

from mc.core import Report, viol, collect_samples

from molgri.naming import GridNameParser
from molgri.space.rotobj import SphereGrid3DFactory, SphereGrid4DFactory

PROPERTY = "C17"
ALG3 = ("randomS", "cube3D", "ico")
ALG4 = ("randomQ", "cube4D", "fulldiv")
ZERO = {"o": "zero3D", "b": "zero4D"}
DEFAULT = {"o": "ico", "b": "cube4D"}
ALL_ALG = ALG3 + ALG4 + ("zero3D", "zero4D")
INTS = ["0", "1", "2", "5", "8", "12", "40", "05", "-3"]
TOKENS = list(ALL_ALG) + ["zero"] + INTS + ["none", "None", "abc", "", "ico5", "4D"]


def check_name(name, role):
    """returns (violations, standard_name or None)"""
    toks = name.split("_")
    numeric = [t for t in toks if t.isnumeric()]
    algs = [t for t in toks if t in ALL_ALG]
    case = {"name": name, "role": role}
    pre = f"C17|role={role}|name={name}"
    try:
        p = GridNameParser(name, role)
        std, alg, N = p.get_standard_grid_name(), p.get_alg(), p.get_N()
    except ValueError:
        return [], None
    except Exception as e:
        return [viol(pre + "|wrong_exception", f"escaped with {type(e).__name__} instead of ValueError: {str(e)[:80]}",
                     case, expected="ValueError", observed=type(e).__name__)], None
    vs = []
    valid = (ALG3 if role == "o" else ALG4) + (ZERO[role],)
    if alg not in valid or not isinstance(N, int) or isinstance(N, bool) or N < 1 or std != f"{alg}_{N}":
        vs.append(viol(pre + "|invalid_standard_name", "accepted name does not give a valid algorithm_N for the role",
                       case, observed=std))
        return vs, None
    if (N == 1) != (alg == ZERO[role]):
        vs.append(viol(pre + "|zero_iff_one", "N=1 must select the zero algorithm and vice versa", case, observed=std))
    if len(numeric) >= 2 or len(algs) >= 2:
        vs.append(viol(pre + "|ambiguous_accepted", "name with two numbers or two algorithm tokens was accepted", case,
                       observed=std))
    if len(numeric) == 1 and "zero" not in name and N != int(numeric[0]):
        vs.append(viol(pre + "|wrong_N", "N differs from the only number in the name", case, expected=int(numeric[0]),
                       observed=N))
    if len(algs) == 1 and algs[0] in valid and N > 1 and alg != algs[0]:
        vs.append(viol(pre + "|wrong_alg", "algorithm differs from the only algorithm token", case, expected=algs[0],
                       observed=alg))
    if not algs and "zero" not in name and N > 1 and alg != DEFAULT[role]:
        vs.append(viol(pre + "|default", "number without algorithm must select the role's default algorithm", case,
                       expected=DEFAULT[role], observed=alg))
    try:
        p2 = GridNameParser(std, role)
        if p2.get_standard_grid_name() != std:
            vs.append(viol(pre + "|fixed_point", "re-parsing the standard name gives a different name", case,
                           expected=std, observed=p2.get_standard_grid_name()))
    except Exception as e:
        vs.append(viol(pre + "|fixed_point_raises", f"re-parsing the standard name raised {type(e).__name__}", case,
                       expected=std))
    return vs, std


def chunk_case(case):
    vs, stds = [], set()
    rej = acc = 0
    for name in case["names"]:
        for role in ("o", "b"):
            v, std = check_name(name, role)
            vs.extend(v)
            if std is None and not v:
                rej += 1
            elif std is not None:
                acc += 1
                stds.add((role, std))
    return {"violations": vs, "stds": sorted(stds), "rejected": rej, "accepted": acc}


def construct_case(case):
    role, std = case["role"], case["std"]
    alg, N = std.rsplit("_", 1)
    N = int(N)
    pre = f"C17|construct|role={role}|std={std}"
    try:
        fac = SphereGrid3DFactory if role == "o" else SphereGrid4DFactory
        g = fac.create(alg_name=alg, N=N)
        arr = g.get_grid_as_array()
        if len(arr) != N or g.get_N() != N:
            return {"violations": [viol(pre + "|count", "constructed grid does not have N points", case, expected=N,
                                        observed=len(arr))]}
    except ValueError as e:
        if alg == "fulldiv" and N not in (8, 40, 272, 2080):
            return {"violations": []}          # documented: only full subdivisions are supported
        return {"violations": [viol(pre + "|valueerror", f"undocumented ValueError: {str(e)[:80]}", case)]}
    except Exception as e:
        return {"violations": [viol(pre + "|raises", f"construction raised {type(e).__name__}: {str(e)[:80]}", case)]}
    return {"violations": []}


def run(ctx):
    rep = Report(PROPERTY, "exploration")
    mmax = 4
    names = []
    for m in range(1, mmax + 1):
        for toks in itertools.product(TOKENS, repeat=m):
            names.append("_".join(toks))
    # five and six tokens over a reduced alphabet (a name is scanned token by token: late tokens count like early ones)
    SMALL = ["ico", "cube4D", "zero3D", "zero", "7", "12", "foo", "None"] if ctx.thorough else ["ico", "cube4D", "12", "foo"]
    for m in ((5, 6) if ctx.thorough else (5,)):
        for toks in itertools.product(SMALL, repeat=m):
            names.append("_".join(toks))
    chunks = [{"names": names[i:i + 2000]} for i in range(0, len(names), 2000)]
    res = ctx.pmap(chunk_case, chunks, chunksize=1, recheck=2)
    stds = set()
    rej = acc = 0
    for r in res:
        rep.add_violations(r["violations"])
        stds.update(tuple(x) for x in r["stds"])
        rej += r["rejected"]
        acc += r["accepted"]
    cc = [{"role": r, "std": s} for r, s in sorted(stds)]
    res2 = ctx.pmap(construct_case, cc, chunksize=1, recheck=2)
    for r in res2:
        rep.add_violations(r["violations"])
    rep.coverage = {
        "evaluations": 2 * len(names) + len(cc),
        "distinct_nontrivial": len(stds),
        "rule": f"every name of 1..{mmax} tokens over {TOKENS} joined by '_', both roles; constraints of the statement "
                "checked on every (name, role); every distinct standard name produced is constructed; "
                "distinct_nontrivial = distinct (role, standard name) produced",
        "samples": collect_samples(names, 6) + [c["std"] for c in cc[:4]],
        "accepted": acc, "rejected_with_ValueError": rej, "exhaustive": True,
        "bound": {"max_tokens": mmax, "reduced_alphabet": {"tokens": SMALL, "lengths": [5, 6] if ctx.thorough else [5]}},
    }
    rep.assumptions = ["tokens of the shape <digit>d (dimension tags) are excluded: left unspecified by the statement"]
    return rep


def replay(case):
    if "std" in case:
        return construct_case(case)["violations"]
    return check_name(case["name"], case["role"])[0]

"""C16 -- radial grids parse to sorted Angstrom radii with interleaved shell boundaries.

Shape B over a grammar: ALL strings of the stated token grammar (lists/tuples in every order with whitespace variants,
linspace, range/arange parameterisations, lists with a negative number), oracle in exact rational arithmetic.
"""
from __future__ import annotations

import itertools
from fractions import Fraction as F

import numpy as np

from mc.core import Report, viol, collect_samples

from molgri.space.translations import TranslationParser, get_between_radii, get_increments

PROPERTY = "C16"
DEC = ["0", "0.05", "0.1", "0.25", "0.3", "0.7", "1", "2.5"]
RTOL = 1e-9


def fr(s):
    return F(s)


def ws_variants(tokens_open, items, tokens_close, prefix=""):
    """none / single / double spaces around separators and brackets."""
    out = []
    for sp in ("", " ", "  "):
        body = (sp + "," + sp).join(items)
        out.append(f"{prefix}{tokens_open}{sp}{body}{sp}{tokens_close}")
    return out


def gen_cases(tier):
    cases = []
    # --- lists / tuples: every subset of size 1..k in every order
    kmax = 3 if tier == "quick" else 4
    for k in range(1, kmax + 1):
        for combo in itertools.combinations(DEC, k):
            perms = list(itertools.permutations(combo))
            for perm in perms:
                for (o, c) in (("[", "]"), ("(", ")")):
                    if o == "(" and k == 1:
                        strings = [f"({perm[0]},)", f"( {perm[0]} , )"]
                    else:
                        strings = ws_variants(o, list(perm), c)
                    if tier == "quick" and k == 3:
                        strings = strings[:1] if o == "(" else strings[:2]
                    if tier == "thorough" and k == 4:
                        strings = strings[:1]
                    for s in strings:
                        cases.append({"kind": "list", "args": list(perm), "input": s})
    # a negative entry whose minus sign is separated from the digits by blanks or a tab (still a negative distance)
    for neg in ("- 2", "-\t0.7", "-  0.0001", "+ -1", "- 1e-3"):
        cases.append({"kind": "negative", "args": ["-1", "3"], "input": f"[1, {neg}, 3]"})
        cases.append({"kind": "negative", "args": ["-1", "3"], "input": f"({neg}, 0.5)"})
        cases.append({"kind": "negative", "args": ["-1", "3"], "input": neg})
    # lists with a REPEATED entry (the value clause covers them: the repeated distance stays; increments and boundaries
    # are only stated for distinct radii)
    for a, b in itertools.permutations(DEC[:6] if tier == "quick" else DEC, 2):
        for perm in sorted(set(itertools.permutations([a, a, b]))):
            cases.append({"kind": "list", "args": list(perm), "input": "[" + ", ".join(perm) + "]"})
        cases.append({"kind": "list", "args": [a, b, b, a], "input": f"({a},{b},{b},{a})"})
    for a in DEC[:6]:
        cases.append({"kind": "list", "args": [a, a], "input": f"[{a}, {a}]"})
        cases.append({"kind": "linspace", "args": [a, a, "3"], "input": f"linspace({a}, {a}, 3)"})
    # alternative spellings of the same decimals: exponent notation, bare leading/trailing dot, explicit plus sign,
    # trailing zeros, trailing comma, tabs and newlines as whitespace, nested parentheses
    ALT = {"0.05": ["5e-2", ".05", "+0.05", "0.050"], "0.1": ["1e-1", ".1", "1E-1", "0.10"], "0.25": [".25", "2.5e-1"],
           "0.3": [".3", "3e-1", "+.3"], "0.7": [".7", "7E-1"], "1": ["1.", "1.0", "+1", "1e0", "10e-1"], "2.5": ["2.5e0", "25e-1"]}
    for a, b in itertools.permutations(["0.05", "0.1", "0.25", "0.3", "0.7", "1", "2.5"], 2):
        for sa in ALT[a][:2]:
            for sb in ALT[b][-2:]:
                cases.append({"kind": "list", "args": [a, b], "input": f"[{sa}, {sb}]"})
                cases.append({"kind": "list", "args": [a, b], "input": f"({sa},{sb},)"})
    for a in ALT:
        for sa in ALT[a]:
            cases.append({"kind": "list", "args": [a], "input": sa})
            cases.append({"kind": "list", "args": [a], "input": f"[{sa},]"})
            cases.append({"kind": "list", "args": [a, "3"], "input": f"[\t{sa} ,\n 3 ]"})
            cases.append({"kind": "linspace", "args": [a, "3", "4"], "input": f"linspace({sa}, 3., 4)"})
            cases.append({"kind": "range", "args": [a, "3"], "input": f"range({sa}, 3.0)"})
    cases.append({"kind": "list", "args": ["0.1", "0.2"], "input": "((0.1, 0.2))"})
    for d in DEC:
        cases.append({"kind": "list", "args": [d], "input": d})
        cases.append({"kind": "list", "args": [d], "input": f" {d}"})
    # --- inputs with a negative number must be rejected (also tiny negatives, in every syntax)
    NEG = ["-0.1", "-1", "-0.05", "-1e-9", "-1e-8", "-1e-12", "-2.5e-7", "-1e-300"]
    for k in (1, 2, 3):
        for combo in itertools.combinations(["0.1", "0.3", "1"], k - 1):
            for neg in NEG:
                items = list(combo) + [neg]
                for perm in sorted(set(itertools.permutations(items))):
                    cases.append({"kind": "negative", "args": list(perm), "input": "[" + ", ".join(perm) + "]"})
    for neg in NEG:
        cases.append({"kind": "negative", "args": [neg], "input": neg})
        cases.append({"kind": "negative", "args": [neg, "1", "5"], "input": f"linspace({neg}, 1, 5)"})
        cases.append({"kind": "negative", "args": [neg, "3"], "input": f"range({neg}, 3)"})
        cases.append({"kind": "negative", "args": [neg, "1", "0.25"], "input": f"arange({neg}, 1, 0.25)"})
    # --- longer lists over the tenths (non-equidistant grids whose mean spacing equals the first spacing live here)
    tenths_ = [str(F(i, 10)) if i % 10 else "1" for i in range(1, 11)]
    tenths_ = [str(float(F(x))) if "/" in x else x for x in tenths_]
    for k in (4, 5):
        for combo in itertools.combinations(tenths_, k):
            cases.append({"kind": "list", "args": list(combo), "input": "[" + ", ".join(combo) + "]"})
            cases.append({"kind": "list", "args": list(combo[::-1]), "input": "(" + ",".join(combo[::-1]) + ")"})
    # --- descending linspace and negative-step range: same distances, ascending order; a negative end point: rejected
    for a, b in (("0.5", "0.1"), ("1.5", "0.2"), ("2", "0.5")):
        for n in (2, 3, 5):
            cases.append({"kind": "linspace", "args": [a, b, str(n)], "input": f"linspace({a}, {b}, {n})"})
    for a, b, st in (("3", "1", "-0.5"), ("2", "0.5", "-0.5"), ("1.3", "1", "-0.1"), ("0.9", "0", "-0.3"), ("4", "1", "-1"),
                     # stops that do NOT lie on the lattice start + k*step
                     ("5", "1.5", "-1"), ("1", "-0.1", "-0.25"), ("2", "0.9", "-0.5"), ("3.3", "0.05", "-0.4"), ("7", "2.75", "-1.5")):
        cases.append({"kind": "range", "args": [a, b, st], "input": f"range({a}, {b}, {st})"})
        cases.append({"kind": "range", "args": [a, b, st], "input": f"arange({a},{b},{st})"})
    for inp in ("range(0.3, -0.45, -0.5)", "range(1, -0.6, -0.5)", "linspace(1, -1, 3)", "linspace(0.5, -0.1, 4)", "range(1, -1, -0.5)", "linspace(-0.2, -0.1, 2)", "[0.1, -0.0001]"):
        cases.append({"kind": "negative", "args": [inp], "input": inp})
    # --- linspace
    lm = ["0.1", "0.2", "0.5", "1.5"]
    for a, b in itertools.combinations(lm, 2):
        for n in (None, 1, 2, 3, 4, 5, 7, 10):
            args = [a, b] + ([] if n is None else [str(n)])
            for s in ws_variants("(", args, ")", prefix="linspace"):
                cases.append({"kind": "linspace", "args": args, "input": s})
            cases.append({"kind": "linspace", "args": args, "input": "np.linspace(" + ", ".join(args) + ")"})
    # --- range / arange: one, two and three arguments over a grid of tenths (float end-point rounding lives here)
    def tenths(lo, hi):
        return [str(F(i, 10)) if i % 10 else str(i // 10) for i in range(lo, hi + 1)]
    def dec(x):
        return str(float(F(x))) if "/" in x else x
    for name in ("range", "arange"):
        for b in [dec(x) for x in tenths(1, 60)]:
            cases.append({"kind": "range", "args": [b], "input": f"{name}({b})"})
        for ai in range(0, 41):
            a = dec(tenths(ai, ai)[0])
            for bi in range(ai + 1, min(ai + 50, 90) + 1):
                b = dec(tenths(bi, bi)[0])
                if name == "arange" and (ai + bi) % 3:
                    continue
                cases.append({"kind": "range", "args": [a, b], "input": f"{name}({a}, {b})"})
        for a in ["0", "0.1", "0.2", "0.3", "0.5", "1", "1.2", "2.4", "0.25", "0.05", "0.35", "1.125"]:
            for bi in range(1, 31):
                b = dec(str(F(a) + F(bi, 10)))
                for st in ["0.1", "0.2", "0.25", "0.3", "0.4", "0.5", "1"]:
                    if name == "arange" and bi % 4:
                        continue
                    args = [a, b, st]
                    strs = ws_variants("(", args, ")", prefix=name)[:(3 if bi % 10 == 0 else 1)]
                    for s in strs:
                        cases.append({"kind": "range", "args": args, "input": s})
    # stops slightly BEYOND a lattice point (the last lattice point is a legitimate radius) and steps that are small
    # relative to the stop (the end-point filter must not swallow the last legitimate radius)
    for a, st, k in (("1", "1", 4), ("0.25", "0.25", 3), ("0", "0.5", 6), ("2", "0.1", 7)):
        for eps in ("0.00001", "0.0001", "0.0005", "0.002", "0.01"):
            b = str(F(a) + F(st) * k + F(eps) * F(st))
            b = dec(b) if "/" in b else b
            args = [a, b, st]
            cases.append({"kind": "range", "args": args, "input": f"range({a}, {b}, {st})"})
            cases.append({"kind": "range", "args": args, "input": f"arange({a}, {b}, {st})"})
            if st == "1":
                cases.append({"kind": "range", "args": [a, b], "input": f"range({a}, {b})"})
                if a == "0":
                    cases.append({"kind": "range", "args": [b], "input": f"range({b})"})
    for a, b, st in (("9.99", "10", "0.0001"), ("99.9", "100", "0.001"), ("5", "5.01", "0.00005"), ("0", "20", "0.0002"),
                     ("10", "9.99", "-0.0001"), ("3", "2.999", "-0.00002")):
        cases.append({"kind": "range", "args": [a, b, st], "input": f"range({a}, {b}, {st})"})
    # twins: the array a linspace/range text generates, written out as a list with the very same floats -> byte-identical
    # radii, so the identifier must be identical too
    import numpy as _np
    twins = []
    for c in cases:
        if c["kind"] in ("linspace", "range") and len(twins) < 400 and c["input"].count(" ") <= 3:
            try:
                nums = [float(x) for x in c["args"]]
                if c["kind"] == "linspace":
                    vals = _np.linspace(*([nums[0], nums[1]] + ([int(nums[2])] if len(nums) == 3 else [])))
                else:
                    vals = _np.arange(*nums, dtype=float)
                    stop = nums[0] if len(nums) == 1 else nums[1]
                    desc = len(nums) == 3 and nums[2] < 0
                    vals = vals[((vals > stop) if desc else (vals < stop)) & ~_np.isclose(vals, stop)]
                if 1 <= len(vals) <= 12 and _np.all(vals >= 0):
                    text = "[" + ", ".join(repr(float(v)) for v in vals) + "]"
                    twins.append({"kind": "list", "args": [repr(float(v)) for v in vals], "input": text})
            except Exception:
                pass
    return cases + twins


def intended(case):
    """mathematically intended distances in nm (Fractions), unsorted semantics resolved; None => must be rejected."""
    k = case["kind"]
    if k == "negative":
        return None
    a = [fr(x) for x in case["args"]]
    if k == "list":
        return sorted(a)
    if k == "negative":
        return None
    if k == "linspace":
        n = int(a[2]) if len(a) == 3 else 50
        if n == 1:
            return [a[0]]
        return sorted(a[0] + (a[1] - a[0]) * F(i, n - 1) for i in range(n))
    if k == "range":
        if len(a) == 1:
            start, stop, step = F(0), a[0], F(1)
        elif len(a) == 2:
            start, stop, step = a[0], a[1], F(1)
        else:
            start, stop, step = a
        out = []
        x = start
        while (x < stop) if step > 0 else (x > stop):
            out.append(x)
            x += step
        return sorted(out)
    raise ValueError(k)


def run_case(case):
    vs = []
    canon_args = ",".join(case["args"]).replace(" ", "")
    pre = f"C16|kind={case['kind']}|args=({canon_args})"
    want = intended(case)
    try:
        tp = TranslationParser(case["input"])
        got = np.asarray(tp.get_trans_grid(), dtype=float)
    except (AssertionError, ValueError) as e:
        if want is None:
            return {"violations": [], "bytes": None, "hash": None, "nontrivial": True, "T": 0}
        return {"violations": [viol(pre + "|rejected", f"valid input rejected: {type(e).__name__}: {str(e)[:80]}",
                                    case, observed=type(e).__name__)], "bytes": None, "hash": None,
                "nontrivial": True, "T": 0}
    except Exception as e:
        return {"violations": [viol(pre + "|raises", f"parser raised {type(e).__name__}: {str(e)[:80]}", case,
                                    observed=type(e).__name__)], "bytes": None, "hash": None, "nontrivial": True, "T": 0}
    if want is None:
        return {"violations": [viol(pre + "|negative_accepted", "negative distance was accepted", case,
                                    observed=got.tolist())], "bytes": None, "hash": None, "nontrivial": True, "T": 0}
    wantA = np.array([float(x * 10) for x in want])
    ok_values = got.shape == wantA.shape and np.allclose(got, wantA, rtol=RTOL, atol=1e-12)
    if not ok_values:
        vs.append(viol(pre + "|values", "radii differ from the intended distances x 10 (ascending)", case,
                       expected=wantA.tolist(), observed=got.tolist()))
    if got.ndim != 1 or np.any(np.diff(got) < 0):
        vs.append(viol(pre + "|sorted", "radii are not ascending", case, observed=got.tolist()))
    distinct = len(set(want)) == len(want)
    if ok_values and distinct and len(want) >= 1:
        r = wantA
        if want[0] > 0:
            try:
                inc = np.asarray(tp.get_increments(), dtype=float)
                winc = np.concatenate([[r[0]], np.diff(r)])
                if inc.shape != winc.shape or not np.allclose(inc, winc, rtol=RTOL, atol=1e-12):
                    vs.append(viol(pre + "|increments", "increments are not (first radius, positive differences)", case,
                                   expected=winc.tolist(), observed=inc.tolist()))
                btw = np.asarray(get_between_radii(tp.get_trans_grid()), dtype=float)
                if len(r) == 1:
                    wb = np.array([2 * r[0]])
                else:
                    wb = np.concatenate([(r[:-1] + r[1:]) / 2, [r[-1] + (r[-1] - r[-2]) / 2]])
                if btw.shape != wb.shape or not np.allclose(btw, wb, rtol=RTOL, atol=1e-12):
                    vs.append(viol(pre + "|between", "shell boundaries are not the midpoints / last half increment", case,
                                   expected=wb.tolist(), observed=btw.tolist()))
                elif len(r) > 1 and not (np.all(r < btw) and np.all(btw[:-1] < r[1:])):
                    vs.append(viol(pre + "|interleave", "r_k < R_k < r_{k+1} violated", case, observed=btw.tolist()))
                b0 = np.asarray(get_between_radii(tp.get_trans_grid(), include_zero=True), dtype=float)
                if b0.shape != (len(wb) + 1,) or b0[0] != 0 or not np.allclose(b0[1:], wb, rtol=RTOL, atol=1e-12):
                    vs.append(viol(pre + "|between_zero", "include_zero variant is not [0, boundaries]", case,
                                   observed=b0.tolist()))
            except Exception as e:
                vs.append(viol(pre + "|increments_raise", f"increments/boundaries raised {type(e).__name__}: {str(e)[:80]}",
                               case, observed=type(e).__name__))
        if tp.get_N_trans() != len(want):
            vs.append(viol(pre + "|N", "get_N_trans differs from number of radii", case))
    return {"violations": vs, "bytes": got.tobytes().hex(), "hash": int(tp.grid_hash), "nontrivial": len(want) >= 2,
            "T": len(want)}


def run(ctx):
    rep = Report(PROPERTY, "exploration")
    cs = gen_cases(ctx.tier)
    res = ctx.pmap(run_case, cs, chunksize=256)
    by_bytes = {}
    for c, r in zip(cs, res):
        # one violation per canonical (kind,args,what): whitespace variants share a key, keep the first
        rep.add_violations(r["violations"])
        if r["bytes"] is not None:
            by_bytes.setdefault(r["bytes"], set()).add(r["hash"])
    for b, hs in by_bytes.items():
        if len(hs) != 1:
            rep.add_violations([viol(f"C16|identifier|bytes={b[:32]}", "identifier differs for byte-identical radii",
                                     {"bytes": b}, observed=sorted(hs))])
    distinct_hashes = len({h for hs in by_bytes.values() for h in hs})
    rep.coverage = {
        "evaluations": len(cs),
        "distinct_nontrivial": sum(1 for b in by_bytes if len(b) >= 32),
        "rule": "all strings of the grammar: lists/tuples of 1..k distinct decimals from " + str(DEC) +
                " in every order x whitespace variants; linspace over 6 (a<b) pairs x num in {omitted,2,3,5,10}; "
                "range/arange with 1,2,3 arguments; lists with one negative entry; distinct_nontrivial = distinct "
                "resulting radius arrays with >=2 radii",
        "samples": collect_samples([c["input"] for c in cs], 8),
        "distinct_arrays": len(by_bytes), "distinct_identifiers": distinct_hashes,
        "identifier_collisions_between_different_arrays": len(by_bytes) - distinct_hashes,
        "exhaustive": True, "bound": {"list_len": 3 if ctx.tier == "quick" else 4},
    }
    rep.assumptions = ["intended values computed with fractions.Fraction", "a first radius 0 is accepted by the parser; "
                       "increments/boundaries are only checked when the first radius is positive (the code rejects a "
                       "zero increment deliberately)"]
    return rep


def replay(case):
    return run_case(case)["violations"]

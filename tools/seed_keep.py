#!/usr/bin/env python3
"""usage: seed_keep.py PROP K detected(yes/no) "needs" "ran" -- stores a confirmed seeded change under /verif/seeded/"""
import json, os, shutil, sys
prop, k, detected, needs, ran = sys.argv[1:6]
import os as _os
src = _os.environ.get("SEEDDIR", "/tmp/seed") + f"/{prop}.out"
kk = int(k) + int(_os.environ.get("SEEDOFFSET", "0"))
dst = f"/verif/seeded/{prop}_{kk}"
os.makedirs(dst, exist_ok=True)
shutil.copy(f"{src}/patch{k}.diff", f"{dst}/patch.diff")
shutil.copy(f"{src}/demo{k}.py", f"{dst}/demo.py")
if os.path.exists(f"{src}/notes{k}.md"):
    shutil.copy(f"{src}/notes{k}.md", f"{dst}/notes.md")
json.dump({"property": prop, "breaks": prop, "needs_to_manifest": needs, "what_i_ran": ran,
           "detected_by_quick_check": detected == "yes", "source": "independent sub-agent given only the property text"},
          open(f"{dst}/meta.json", "w"), indent=1)
print("kept", dst)

#!/bin/bash
# Offline setup: nothing to build (pure Python, molgri is imported from /repo's working tree).
set -e
cd /verif
mkdir -p evidence replays
/venv/bin/python -m compileall -q mc checks run_check.py >/dev/null 2>&1 || true
/venv/bin/python /verif/mc/selftest.py

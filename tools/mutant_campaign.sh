#!/bin/bash
# runs every mutants/<cxx>_*.patch against its property's quick check; appends to mutants/RESULTS.tsv
cd /verif
: > /tmp/scratch/mutants.log
for p in mutants/*.patch; do
  name=$(basename $p .patch); prop=$(echo ${name%%_*} | tr a-z A-Z)
  out=$(LINES_MAX=2 tools/try_patch.sh $PWD/$p $prop 2>&1)
  rc=$(echo "$out" | grep -o 'exit=[0-9]*' | tail -1)
  first=$(echo "$out" | grep 'key=' | head -1 | cut -c1-160)
  echo -e "$name\t$prop\t$rc\t$first" >> /tmp/scratch/mutants.log
done
echo finished >> /tmp/scratch/mutants.log

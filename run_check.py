#!/venv/bin/python
"""Single CLI of the verification machinery.

    run_check.py Cxx [--tier quick|thorough] [--replay FILE]

exit 0: property held on everything explored (listed known findings are printed as KNOWN-FINDING lines)
exit 1: at least one unlisted violation ("VIOLATION property=<id> replay=<path>")
exit 2: harness error (nondeterminism, oracle crash, invalid evidence) -- never a property verdict
"""
import argparse
import importlib
import json
import os
import sys
import time

VERIF = os.path.dirname(os.path.abspath(__file__))
ENV = {"PYTHONHASHSEED": "0", "OPENBLAS_NUM_THREADS": "1", "OMP_NUM_THREADS": "1", "MKL_NUM_THREADS": "1",
       "MOLGRI_VERIF": "1", "PYTHONDONTWRITEBYTECODE": "1", "MPLBACKEND": "agg", "PYTHONUTF8": "1"}


def main():
    ap = argparse.ArgumentParser()
    ap.add_argument("prop")
    ap.add_argument("--tier", default=os.environ.get("VERIF_TIER", "quick"), choices=["quick", "thorough"])
    ap.add_argument("--replay", default=None)
    ap.add_argument("--workers", type=int, default=None)
    args = ap.parse_args()

    if any(os.environ.get(k) != v for k, v in ENV.items()):
        os.environ.update(ENV)
        os.execv(sys.executable, [sys.executable] + sys.argv)

    repo = os.environ.get("VERIF_REPO", "/repo")
    sys.path.insert(0, VERIF)
    sys.path.insert(0, repo)
    try:
        seed = int(os.environ.get("VERIF_SEED", "0"))
    except ValueError:
        seed = 0

    # the library prints a lot: send fd 1 of this process and all children to /dev/null, keep our own channel
    sys.stdout.flush()
    real = os.dup(1)
    devnull = os.open(os.devnull, os.O_WRONLY)
    os.dup2(devnull, 1)
    out = os.fdopen(real, "w", buffering=1)
    if os.environ.get("VERIF_DEBUG") != "1":
        import warnings
        warnings.filterwarnings("ignore")

    from mc.core import Ctx, HarnessError, ImplementationRaised, jdump
    from mc import findings, evidence

    pid = args.prop.upper()
    t0 = time.time()
    try:
        mod = importlib.import_module(f"checks.{pid.lower()}")
        import molgri
        if not os.path.abspath(molgri.__file__).startswith(os.path.abspath(repo)):
            raise HarnessError(f"molgri imported from {molgri.__file__}, expected under {repo}")
        if args.replay:
            rec = json.load(open(args.replay))
            vs = mod.replay(rec["case"])
            same = [v for v in vs if v["key"] == rec["key"]]
            for v in vs:
                print(f"replayed violation key={v['key']} what={v['what']} observed={jdump(v.get('observed'))[:300]}",
                      file=out)
            if same:
                print(f"VIOLATION property={pid} replay={args.replay}", file=out)
                sys.exit(1)
            print(f"replay of {rec['key']}: violation not reproduced on this tree", file=out)
            sys.exit(0)
        ctx = Ctx(args.tier, seed, out, workers=args.workers)
        rep = mod.run(ctx)
        if rep.harness_errors:
            raise HarnessError("; ".join(rep.harness_errors[:3]))
        unlisted, listed = findings.classify(pid, rep.violations)
        for prefix, (ent, vs) in sorted(listed.items()):
            print(f"KNOWN-FINDING: property={pid} {ent['what']} [{len(vs)} occurrence(s), e.g. {vs[0]['key']}]",
                  file=out)
        n_known = sum(len(vs) for _, vs in listed.values())
        for v in unlisted[:20]:
            path = findings.write_replay(pid, v, repo)
            print(f"VIOLATION property={pid} replay={path}", file=out)
            print(f"    key={v['key']} :: {v['what']} expected={jdump(v.get('expected'))[:200]} "
                  f"observed={jdump(v.get('observed'))[:200]}", file=out)
        if len(unlisted) > 20:
            print(f"    ... and {len(unlisted) - 20} further unlisted violations (not printed)", file=out)
        wall = time.time() - t0
        evidence.write_evidence(rep, args.tier, seed, wall, len(unlisted), n_known)
        cov = rep.coverage
        summ = {k: cov[k] for k in ("states", "transitions", "traces_validated_against_impl", "evaluations",
                                    "distinct_nontrivial", "exhaustive", "bound") if k in cov}
        print(f"SUMMARY property={pid} tier={args.tier} seed={seed} {jdump(summ)} unlisted_violations={len(unlisted)} "
              f"known_finding_occurrences={n_known} recheck={ctx.recheck_done} wall_s={wall:.1f}", file=out)
        sys.exit(1 if unlisted else 0)
    except ImplementationRaised as e:
        # an exception escaped from the package through a call that never raises on a tree where the property holds
        from mc.core import viol
        seen = set()
        for it in e.items:
            ie = it["impl_error"]
            key = f"{pid}|unguarded_exception|{ie['type']}|{ie['where']}"
            if key in seen:
                continue
            seen.add(key)
            if len(seen) > 20:
                break
            v = viol(key, f"{ie['type']} escaped from {ie['where']}: {ie['msg']}", it["case"], observed=ie["traceback"])
            path = findings.write_replay(pid, v, repo)
            print(f"VIOLATION property={pid} replay={path}", file=out)
            print(f"    key={key} :: {v['what']} case={jdump(it['case'])[:300]}", file=out)
        print(f"SUMMARY property={pid} tier={args.tier} seed={seed} aborted: {len(e.items)} case(s) ended in an exception "
              f"raised inside the package (evidence file not rewritten)", file=out)
        sys.exit(1)
    except HarnessError as e:
        print(f"HARNESS-ERROR property={pid}: {e}", file=out)
        sys.exit(2)
    except SystemExit:
        raise
    except Exception:
        import traceback
        print(f"HARNESS-ERROR property={pid}: unexpected exception\n{traceback.format_exc()}", file=out)
        sys.exit(2)


if __name__ == "__main__":
    main()

"""C10 -- pseudotrajectory frame k is the rigid placement prescribed by grid row k.

Shape A+B: molecules x full-grid arrays (real grids and non-grid arrays: every combination of 12 positions with the 24
cube rotations and generic quaternions); every frame and atom against O-RIGID.  History part: the generator mutates one
live molecule frame after frame, so for every k the frame reached along the full run must equal the frame reached from
the initial state by a pseudotrajectory made of row k alone (state reached from elsewhere vs from the initial state).
"""
from __future__ import annotations

import os
import shutil
import tempfile

import numpy as np

from mc.core import Report, viol, collect_samples
from mc.molecules import (write_xyz, file_coords, quat_to_matrix, cube_rotations, generic_quaternions, fibonacci_directions,
                          special_quaternions)

from molgri.io import OneMoleculeReader
from molgri.molecules.pts import Pseudotrajectory
from molgri.space.fullgrid import FullGrid

PROPERTY = "C10"
TOL = 5e-5  # Angstrom (MDAnalysis keeps float32 coordinates)


def make_array(spec):
    if spec["type"] == "grid":
        return np.asarray(FullGrid(spec["b"], spec["o"], spec["t"]).get_full_grid_as_array(), dtype=float)
    nq = spec["n_generic"]
    quats = np.concatenate([cube_rotations(), generic_quaternions(nq)])
    if spec.get("special"):
        quats = special_quaternions()
    dirs = fibonacci_directions(spec["n_pos"])
    radii = np.array([0.0, 1.7, 3.1, 12.5])
    pos = np.array([radii[i % 4] * d for i, d in enumerate(dirs)])
    rows = np.array([np.concatenate([p, q]) for p in pos for q in quats])
    if spec.get("order") == "large":        # more rows than any internal buffer size (2**14 + a bit)
        big = np.tile(rows, (int(np.ceil(17100 / len(rows))), 1))[:17100]
        shift = (np.arange(len(big)) % 97)[:, None] * np.array([[0.013, -0.007, 0.011]])
        rows = big.copy()
        rows[:, :3] += shift
        return rows
    if spec.get("order") == "orientation_slow":
        rows = np.array([np.concatenate([p, q]) for q in quats for p in pos])
    elif spec.get("order") == "shuffled":
        perm = np.random.Generator(np.random.PCG64(99)).permutation(len(rows))
        rows = rows[perm][: (2 * len(rows)) // 3]          # shuffled and with a third of the rows removed
    elif spec.get("order") == "repeats":
        rows = np.concatenate([rows[:3], rows[:1], rows[1:2], rows[:1], rows[40:43], rows[2:3]])
    if spec.get("rows"):           # exactly this many rows (row counts that coincide with the row length 7, 3, 4 ...)
        rows = rows[5:5 + spec["rows"]]
    return rows


def run_case(case):
    m1, m2, spec = case["m1"], case["m2"], case["array"]
    aname = spec.get("name")
    pre = f"C10|m1={m1}|m2={m2}|array={aname}"
    vs = []
    d = tempfile.mkdtemp(prefix="verif_c10_")
    try:
        p1, p2 = write_xyz(m1, d), write_xyz(m2, d)
        arr = make_array(spec)
        u1 = OneMoleculeReader(p1).get_molecule()
        u2 = OneMoleculeReader(p2).get_molecule()
        raw1 = __import__("mc.molecules", fromlist=["file_coords"]).file_coords(m1)
        raw2 = __import__("mc.molecules", fromlist=["file_coords"]).file_coords(m2)
        mass1, mass2 = u1.atoms.masses.astype(float), u2.atoms.masses.astype(float)
        ref1 = raw1 - (mass1[:, None] * raw1).sum(0) / mass1.sum()
        ref2 = raw2 - (mass2[:, None] * raw2).sum(0) / mass2.sum()
        # the reader centres the molecule (part of the statement's premise)
        if np.abs(u2.atoms.positions - ref2).max() > TOL or np.abs(u1.atoms.positions - ref1).max() > TOL:
            vs.append(viol(pre + "|reader_centering", "OneMoleculeReader does not centre the molecule at its centre of mass",
                           case))
        try:
            pt = Pseudotrajectory(u1, u2, arr)
            U = pt.get_pt_as_universe()
        except Exception as e:
            return {"violations": [viol(pre + "|raises", f"{type(e).__name__}: {str(e)[:120]}", case)], "frames": 0}
        n1, n2 = len(ref1), len(ref2)
        if len(U.trajectory) != len(arr):
            vs.append(viol(pre + "|frame_count", "number of frames differs from number of grid rows", case,
                           expected=len(arr), observed=len(U.trajectory)))
            return {"violations": vs, "frames": 0}
        names = list(u1.atoms.names) + list(u2.atoms.names)
        types = list(u1.atoms.types) + list(u2.atoms.types)
        if list(U.atoms.names) != names or list(U.atoms.types) != types:
            vs.append(viol(pre + "|atom_order", "atom names/types are not molecule 1 followed by molecule 2", case,
                           expected=names, observed=list(U.atoms.names)))
        D2 = np.linalg.norm(ref2[:, None, :] - ref2[None, :, :], axis=2)
        worst = 0.0
        frames = []
        for k, ts in enumerate(U.trajectory):
            P = np.asarray(ts.positions, dtype=float).copy()
            frames.append(P)
            if P.shape != (n1 + n2, 3):
                vs.append(viol(pre + "|frame_shape", f"frame {k} has wrong number of atoms", case))
                break
            e1 = np.abs(P[:n1] - ref1).max()
            want2 = ref2 @ quat_to_matrix(arr[k, 3:]).T + arr[k, :3]
            e2 = np.abs(P[n1:] - want2).max()
            worst = max(worst, e1, e2)
            if e1 > TOL:
                vs.append(viol(pre + f"|mol1_moved|frame={k}", f"first molecule changed in frame {k}", case,
                               observed=float(e1)))
                break
            if e2 > TOL:
                ed = np.abs(np.linalg.norm(P[n1:, None, :] - P[None, n1:, :], axis=2) - D2).max()
                com = (mass2[:, None] * P[n1:]).sum(0) / mass2.sum()
                kind = "not_rigid" if ed > TOL else ("com" if np.abs(com - arr[k, :3]).max() > TOL else "rotation")
                vs.append(viol(pre + f"|placement|{kind}|frame={k}", f"frame {k}: second molecule is not R(q_k)(ref-com)+pos_k "
                               f"[{kind}] (row {np.round(arr[k], 4).tolist()})", case, expected=want2[:2].tolist(),
                               observed=P[n1:][:2].tolist()))
                break
        # the generator itself: frames kept by the caller and inspected after the generator has moved on
        if not vs and len(arr) <= 2000:
            try:
                kept = list(Pseudotrajectory(u1, u2, arr).generate_pseudotrajectory())
                if [i for i, _ in kept] != list(range(len(arr))):
                    vs.append(viol(pre + "|generator_indices", "generator does not yield frame indices 0,1,2,...", case,
                                   observed=[int(i) for i, _ in kept][:8]))
                for k in range(0, len(kept), max(1, len(kept) // 40)):
                    Pk = np.asarray(kept[k][1].atoms.positions, dtype=float)
                    if Pk.shape != frames[k].shape or np.abs(Pk - frames[k]).max() > TOL:
                        vs.append(viol(pre + f"|generator_aliasing|frame={k}", f"frame {k} yielded by the generator, inspected "
                                       "after the generator was exhausted, is no longer the placement of row k", case,
                                       observed=float(np.abs(Pk - frames[k]).max()) if Pk.shape == frames[k].shape else None))
                        break
            except Exception as e:
                vs.append(viol(pre + "|generator_raises", f"{type(e).__name__}: {str(e)[:100]}", case))
        # one-molecule views: the right atoms, and a caller who modifies the returned universe must not change the PT
        if not vs and len(arr) <= 2000:
            try:
                for second, sl in ((True, slice(n1, None)), (False, slice(0, n1))):
                    Uo = pt.get_one_molecule_pt_as_universe(return_mol2=second)
                    Fo = [np.asarray(ts.positions, dtype=float).copy() for ts in Uo.trajectory]
                    if len(Fo) != len(frames) or any(a.shape != f[sl].shape or np.abs(a - f[sl]).max() > TOL
                                                      for a, f in zip(Fo, frames)):
                        vs.append(viol(pre + f"|one_molecule|mol2={second}", "one-molecule pseudotrajectory is not the "
                                       "corresponding slice of the full one", case))
                        break
                    for ts in Uo.trajectory:
                        ts.positions[:] = ts.positions + 5.0
                    again = [np.asarray(ts.positions, dtype=float).copy() for ts in pt.get_pt_as_universe().trajectory]
                    if any(np.abs(a - f).max() > TOL for a, f in zip(again, frames)):
                        vs.append(viol(pre + f"|one_molecule_alias|mol2={second}", "modifying the returned one-molecule universe "
                                       "changed the frames of the pseudotrajectory (shared memory)", case))
                        break
            except Exception as e:
                vs.append(viol(pre + "|one_molecule_raises", f"{type(e).__name__}: {str(e)[:100]}", case))
        # history part
        if not vs:
            U2 = pt.get_pt_as_universe()
            if U2 is not U and not all(np.array_equal(a, np.asarray(t.positions)) for a, t in zip(frames, U2.trajectory)):
                vs.append(viol(pre + "|second_call", "calling the getter twice returns different frames", case))
            ks = case.get("single_rows") or list(range(len(arr)))
            if len(arr) > 2000:
                ks = ks[::40]
            for k in ks:
                try:
                    Uk = Pseudotrajectory(u1, u2, arr[k:k + 1]).get_pt_as_universe()
                    Pk = np.asarray(Uk.trajectory[0].positions, dtype=float)
                except Exception as e:
                    vs.append(viol(pre + f"|single_row_raises|frame={k}", f"{type(e).__name__}", case))
                    break
                if np.abs(Pk - frames[k]).max() > TOL:
                    vs.append(viol(pre + f"|history_dependence|frame={k}", f"frame {k} of the full run differs from the "
                                   "pseudotrajectory built from row k alone (state carried over between frames)", case,
                                   observed=float(np.abs(Pk - frames[k]).max())))
                    break
        return {"violations": vs, "frames": len(arr), "worst": float(worst)}
    finally:
        shutil.rmtree(d, ignore_errors=True)


def ptwriter_case(case):
    """call histories on the package's writer: all words of length <= 3 over {write_structure, read pt_universe,
    write_full_pt}; the frames (in memory and as written to disk) must be the prescribed placements in every order"""
    import itertools
    import MDAnalysis as mda
    from molgri.io import PtWriter
    m1, m2 = case["m1"], case["m2"]
    d = tempfile.mkdtemp(prefix="verif_c10w_")
    vs = []
    words_run = 0
    try:
        p1, p2 = write_xyz(m1, d), write_xyz(m2, d)
        arr = make_array(case["array"])
        gpath = os.path.join(d, "grid.npy")
        np.save(gpath, arr)
        from mc.molecules import MOLECULES
        u1 = OneMoleculeReader(p1).get_molecule()
        u2 = OneMoleculeReader(p2).get_molecule()
        raw1, raw2 = file_coords(m1), file_coords(m2)
        ms1, ms2 = u1.atoms.masses.astype(float), u2.atoms.masses.astype(float)
        ref1 = raw1 - (ms1[:, None] * raw1).sum(0) / ms1.sum()
        ref2 = raw2 - (ms2[:, None] * raw2).sum(0) / ms2.sum()
        want = np.array([np.concatenate([ref1, ref2 @ quat_to_matrix(r[3:]).T + r[:3]]) for r in arr])

        def frames_of(U):
            return np.array([np.asarray(ts.positions, dtype=float).copy() for ts in U.trajectory])

        for L in (1, 2, 3)[:case.get("maxlen", 3)]:
            for word in itertools.product(("ws", "pt", "wf", "wd"), repeat=L):
                if L == 3 and word.count("wd") > 1:
                    continue
                words_run += 1
                key = f"C10|ptwriter|m1={m1}|m2={m2}|word={'>'.join(word)}"
                try:
                    w = PtWriter(p1, p2, case.get("cell", 30.0), gpath)
                    for i, ev in enumerate(word):
                        if ev == "ws":
                            w.write_structure(7.5, os.path.join(d, f"s_{i}.gro"))
                        elif ev == "pt":
                            F = frames_of(w.pt_universe)
                            if F.shape != want.shape or np.abs(F - want).max() > TOL:
                                vs.append(viol(key + f"|step={i}|pt_universe", "writer's pseudotrajectory frames are not the "
                                               "prescribed placements after this call history", dict(case, word=list(word)),
                                               observed=float(np.abs(F - want).max()) if F.shape == want.shape else list(F.shape)))
                                break
                        elif ev == "wd":
                            # one file per frame, names not zero padded (0.xyz, 1.xyz, ... 10.xyz ...)
                            dd = os.path.join(d, f"dir_{words_run}_{i}")
                            os.makedirs(dd, exist_ok=True)
                            paths = [os.path.join(dd, f"{k}.xyz") for k in range(len(arr))]
                            w.write_full_pt_in_directory(paths, os.path.join(dd, "structure.gro"))
                            for k in range(len(arr)):
                                Fk = np.asarray(mda.Universe(paths[k]).atoms.positions, dtype=float)
                                if Fk.shape != want[k].shape or np.abs(Fk - want[k]).max() > 2e-4:
                                    vs.append(viol(key + f"|step={i}|directory_file|frame={k}", f"file {k}.xyz written in directory "
                                                   "mode does not hold the placement of grid row k", dict(case, word=list(word))))
                                    break
                            shutil.rmtree(dd, ignore_errors=True)
                            if vs:
                                break
                        else:
                            tp, sp = os.path.join(d, f"t_{i}.xyz"), os.path.join(d, f"st_{i}.gro")
                            w.write_full_pt(tp, sp)
                            F = frames_of(mda.Universe(sp, tp))
                            if F.shape != want.shape or np.abs(F - want).max() > 2e-4:
                                vs.append(viol(key + f"|step={i}|written_file", "frames written to disk are not the "
                                               "prescribed placements after this call history", dict(case, word=list(word)),
                                               observed=float(np.abs(F - want).max()) if F.shape == want.shape else list(F.shape)))
                                break
                except Exception as e:
                    vs.append(viol(key + "|raises", f"{type(e).__name__}: {str(e)[:100]}", dict(case, word=list(word))))
                if len(vs) >= 3:
                    break
            if len(vs) >= 3:
                break
        return {"violations": vs, "frames": words_run * len(arr), "worst": 0.0}
    finally:
        shutil.rmtree(d, ignore_errors=True)


def cases(tier):
    arrays = [{"type": "grid", "name": "grid_1_ico5_2r", "b": "1", "o": "ico_5", "t": "[0.2,0.3]"},
              {"type": "grid", "name": "grid_cube4D8_ico12_3r", "b": "cube4D_8", "o": "ico_12", "t": "[0.1,0.25,0.3]"},
              {"type": "grid", "name": "grid_randomQ7_cube3D9_1r", "b": "randomQ_7", "o": "cube3D_9", "t": "0.45"},
              {"type": "nongrid", "name": "nongrid_12x54", "n_pos": 12, "n_generic": 30},
              {"type": "nongrid", "name": "nongrid_special_4x82", "n_pos": 4, "n_generic": 0, "special": True},
              {"type": "nongrid", "name": "nongrid_orientation_slow", "n_pos": 5, "n_generic": 6, "order": "orientation_slow"},
              {"type": "nongrid", "name": "nongrid_shuffled", "n_pos": 6, "n_generic": 8, "order": "shuffled"},
              {"type": "nongrid", "name": "nongrid_repeats", "n_pos": 3, "n_generic": 4, "order": "repeats"}]
    if tier == "thorough":
        arrays.append({"type": "nongrid", "name": "nongrid_24x224", "n_pos": 24, "n_generic": 200})
        arrays.append({"type": "grid", "name": "grid_cube4D40_ico42_2r", "b": "cube4D_40", "o": "ico_42", "t": "[0.2,0.5]"})
    out = []
    for m2 in ("He", "HF", "H2O", "NH3", "CHFClBr", "H2O_dummy") + (("glucose", "bent4") if tier == "thorough" else ()):
        for m1 in ("H2O", "He"):
            for a in arrays:
                out.append({"m1": m1, "m2": m2, "array": a})
    # every row count 1..10 (a 7-row array is as long as a row is wide; 3 and 4 match the position / quaternion widths)
    for k in range(1, 11):
        out.append({"m1": "H2O", "m2": "CHFClBr", "array": {"type": "nongrid", "name": f"nongrid_rows{k}", "n_pos": 6,
                                                            "n_generic": 8, "rows": k}})
    # the same molecules read from other file formats (gro: nanometres on disk; pdb: fixed columns)
    for m1, m2 in (("H2O@gro", "CHFClBr@gro"), ("H2O@pdb", "CHFClBr@pdb"), ("H2O", "NH3@gro"), ("H2O@gro", "HF@pdb")):
        for a in (arrays[1], arrays[3]):
            out.append({"m1": m1, "m2": m2, "array": a})
    out.append({"m1": "He", "m2": "HF", "array": {"type": "nongrid", "name": "nongrid_large_17100", "n_pos": 6, "n_generic": 6,
                                                 "order": "large"}})
    return out


def run(ctx):
    rep = Report(PROPERTY, "model_checking")
    cs = cases(ctx.tier)
    for c in cs:   # rows replayed from the initial state: a comb of every 7th row (all rows for arrays <= 60 rows)
        c["single_rows"] = "comb7"
    # resolve combs against the real array lengths inside the worker (indices beyond the array are dropped there)
    wcs = [{"ptwriter": True, "m1": m1, "m2": m2, "array": {"type": "grid", "name": "grid_cube4D4_ico5_2r", "b": "cube4D_4",
                                                              "o": "ico_5", "t": "[0.2,0.45]"}}
           for m1, m2 in (("H2O", "NH3"), ("He", "CHFClBr"))]
    # grid positions beyond half the periodic cell handed to the writer (placements are NOT wrapped into the cell)
    wcs.append({"ptwriter": True, "m1": "H2O", "m2": "HF", "cell": 30.0, "maxlen": 2,
                "array": {"type": "grid", "name": "grid_cube4D3_ico6_far", "b": "cube4D_3", "o": "ico_6", "t": "[0.5, 2.0, 4.1]"}})
    res = ctx.pmap(run_case_wrapped, cs, chunksize=1, recheck=2) + ctx.pmap(ptwriter_case, wcs, chunksize=1, recheck=1)
    cs = cs + wcs
    frames = sum(r["frames"] for r in res)
    for r in res:
        rep.add_violations(r["violations"])
    rep.coverage = {
        "states": frames, "transitions": frames, "traces_validated_against_impl": len(cs),
        "samples": collect_samples([f"{c['m1']}+{c['m2']} on {c['array']['name']}" for c in cs], 5),
        "ptwriter_call_histories": (4 + 16 + 54) * len(wcs),
        "evaluations": frames, "distinct_nontrivial": len(cs),
        "max_abs_deviation_A": max(r.get("worst", 0) for r in res),
        "rule": "molecule pairs x arrays (3 real grids + non-grid array of 12 positions x (24 cube rotations + 30 generic "
                "quaternions)); every frame/atom against R(q)(ref-com)+pos with an own quaternion formula; each frame is a "
                "state of the generator's live molecule, re-derived from the initial state by a single-row pseudotrajectory",
        "bound": {"frames_per_array_max": 648 if ctx.tier == "quick" else 5376}, "exhaustive": True,
    }
    rep.assumptions = ["tolerance 5e-5 Angstrom (float32 coordinates)", "masses as assigned by MDAnalysis from element names"]
    return rep


def run_case_wrapped(case):
    c = dict(case)
    n = len(make_array(c["array"]))
    c["single_rows"] = list(range(n)) if n <= 60 else list(range(0, n, 7))
    return run_case(c)


def replay(case):
    if case.get("ptwriter"):
        return ptwriter_case(case)["violations"]
    return run_case_wrapped(case)["violations"]
